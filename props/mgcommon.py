"""Shared machinery for the move-generator contracts (C01): the EMIT rule, the ghost move counter and the list-capacity projection."""
import re
from runner import Job, tu
import cxx2c

MTUS = tu('movegen.cpp', 'position.cpp', 'types.cpp', 'bithacks.cpp', 'move_bitboards.cpp')
CANARY = '\n#ifdef CANARY\n  __CPROVER_assert(0, "CANARY: must fail (reachability of the point after the call)");\n#endif\n'
ND = 'uint32_t nondet_u32(void); uint64_t nondet_u64(void); int nondet_int(void); _Bool nondet_bool(void);\nstruct Position nondet_Position(void);\n'

# ghost move / counter; output-buffer projection: a store `*list++ = e` becomes "count if e is the ghost move, assert room, advance"
EMIT_PRE = '''
uint32_t G_M; int g_cnt; uint32_t *g_lo; size_t g_cap_bytes;
#define VERIF_EMIT(l, e) { uint32_t mm_ = (e); if (mm_ == G_M) g_cnt++; \\
  __CPROVER_assert(__CPROVER_same_object((l), g_lo) && __CPROVER_POINTER_OFFSET(l) + 4 <= g_cap_bytes, "move list: room for one more move (output-buffer projection of the store)"); (l)++; }
'''


def is_emit(n):
    """AST shape  *list++ = e  with list a Move* parameter/local"""
    if n.get('kind') != 'BinaryOperator' or n.get('opcode') != '=':
        return None
    lhs, rhs = n['inner']
    while lhs.get('kind') == 'ParenExpr':
        lhs = lhs['inner'][0]
    if lhs.get('kind') != 'UnaryOperator' or lhs.get('opcode') != '*':
        return None
    inc = lhs['inner'][0]
    while inc.get('kind') in ('ParenExpr', 'ImplicitCastExpr'):
        inc = inc['inner'][0]
    if inc.get('kind') != 'UnaryOperator' or inc.get('opcode') != '++' or not inc.get('isPostfix'):
        return None
    tgt = inc['inner'][0]
    if tgt.get('kind') != 'DeclRefExpr' or not cxx2c.qt(tgt['type']).replace(' ', '').endswith('Move*') and 'unsigned int *' not in cxx2c.qt(tgt['type']):
        return None
    return tgt, rhs


def emit_stmt_hook(em, n, p):
    r = is_emit(n)
    if r is None:
        return None
    tgt, rhs = r
    em.hit('*list++ = e  ->  VERIF_EMIT(list, e) (ghost move counter + capacity assertion; the store itself is projected away)')
    return p + 'VERIF_EMIT(%s, %s)\n' % (em.e(tgt), em.e(rhs))


def emit_func_text_hook(em, info, txt):
    # must-fire: no other store through a Move* named list may remain in a generator
    if re.search(r'\(\*\(?list', txt) or re.search(r'\blist\[', txt):
        raise cxx2c.Drift('%s stores to the move list in a way the EMIT rule does not recognise' % info['cname'])
    return txt


HOOKS = {'stmt': emit_stmt_hook, 'func_text': emit_func_text_hook}

# decoding of the ghost move in contracts
GF, GT, GP, GC = '(G_M & 63)', '((G_M >> 6) & 63)', '((G_M >> 12) & 7)', '(G_M >> 15)'
PLAIN = '(%s == 0 && %s == 0)' % (GC, GP)


def bitloop_contract(match, per_bit=1, extra_assigns=''):
    """loop contract of a FOR_EACH_BIT loop that emits `per_bit` moves per target square (variant: the bitboard itself)"""
    return ['__CPROVER_assigns(bb, list, g_cnt%s)' % extra_assigns,
            '__CPROVER_loop_invariant((bb & ~__CPROVER_loop_entry(bb)) == 0)',
            '__CPROVER_loop_invariant(__CPROVER_same_object(list, __CPROVER_loop_entry(list)) && __CPROVER_POINTER_OFFSET(list) == __CPROVER_POINTER_OFFSET(__CPROVER_loop_entry(list)) + %d * __builtin_popcountll(__CPROVER_loop_entry(bb) & ~bb))' % (4 * per_bit),
            '__CPROVER_loop_invariant(g_cnt == __CPROVER_loop_entry(g_cnt) + ((%s) && (((__CPROVER_loop_entry(bb) & ~bb) >> %s) & 1) ? 1 : 0))' % (match, GT),
            '__CPROVER_decreases(bb)']
