"""C13 - static evaluation is colour-symmetric (claimed for the 17 specialised endgame evaluators).

  For every endgame class T: Endgame<T>(WHITE) on P and Endgame<T>(BLACK) on mirror(P) agree on `applies` and on
  `strongSideScore`, for every well-formed position P (relational harness over the two real instantiations); and
  applies_WHITE(P), applies_BLACK(P) are never both true (so the WHITE-first registration order cannot break symmetry).
  KPK reads the bitbase through the real normalize/check with BITBASE an arbitrary table.
"""
from runner import Job, tu
from props.poscommon import SPEC, POST, ND, CANARY
from props.C11 import loops_unwind

LEVEL = 'proof'
EXPLANATION = ('Relational (2-safety) obligations f_WHITE(P) == f_BLACK(mirror P) on the extracted real member functions of the 17 endgame classes, '
               'for all well-formed positions; loops over piece lists closed by complete unwinding.')
ASSUMPTIONS = ['the general (middle-game) evaluator PositionScorer::score is NOT covered: its per-side templates are not yet under contract',
               'endgame::score (vector of unique_ptr, virtual dispatch: first matching endgame wins) and EndgameBase::score (sign by side to move) are outside the verified subset: first-match dispatch is an assumption',
               'piece lists are mirrored slot by slot; independence of the evaluators from list order is not proved separately',
               'slider_attack<BISHOP> == ray walk (C11)', 'KING_MASK == king moves (C11)']
NOT_COVERED = ['PositionScorer (general evaluation)', 'dispatch order in endgame::score']

TUS = tu('endgame.cpp', 'position.cpp', 'types.cpp', 'bithacks.cpp', 'bitbase.cpp', 'move_bitboards.cpp')
NAMES = ['KPK', 'KPsK', 'KNBK', 'KXK', 'KQKR', 'KRNKR', 'KRBKR', 'KBPsK', 'KQKP', 'KRKP', 'KNNK', 'KNNKP', 'KBPsKB', 'KRKB', 'KRKN', 'KQKRPs', 'KmmKm']
SL3 = '__CPROVER_requires(sq < 64)\n__CPROVER_assigns()\n__CPROVER_ensures(__CPROVER_return_value == spec_bishop_walk(sq, blockers))\n'

REPLAY = {'needs': ['W_P'], 'body': '''
  // evaluate P and its mirror through the real dispatcher
  std::string f = P.fen();
  Position M(VerifAccess::mirror_fen(f));
  Value a = endgame::score(P), b = endgame::score(M);
  printf("position %s -> %ld ; mirror %s -> %ld\\n", f.c_str(), (long)a, M.fen().c_str(), (long)b);
  if (a != b) printf("CONFIRMED endgame evaluation differs between a position and its colour mirror\\n"); else printf("NOT-REPRODUCED\\n");
''', 'access': '''
  static std::string mirror_fen(const std::string& fen) {
    std::vector<std::string> t; std::string cur; for (char c : fen) { if (c == ' ') { t.push_back(cur); cur.clear(); } else cur += c; } t.push_back(cur);
    std::vector<std::string> rows; cur.clear(); for (char c : t[0]) { if (c == '/') { rows.push_back(cur); cur.clear(); } else cur += c; } rows.push_back(cur);
    std::string b; for (int i = 7; i >= 0; i--) { for (char c : rows[i]) b += isalpha(c) ? (islower(c) ? toupper(c) : tolower(c)) : c; if (i) b += '/'; }
    std::string side = t[1] == "w" ? "b" : "w", cs; for (char c : t[2]) if (c != '-') cs += islower(c) ? toupper(c) : tolower(c);
    std::string cs2; for (char c : std::string("KQkq")) if (cs.find(c) != std::string::npos) cs2 += c; if (cs2.empty()) cs2 = "-";
    std::string ep = t[3]; if (ep != "-") ep[1] = '1' + ('8' - ep[1]);
    return b + " " + side + " " + cs2 + " " + ep + " " + (t.size() > 4 ? t[4] : "0") + " " + (t.size() > 5 ? t[5] : "1"); }
'''}
REPLAY_DECL = '#include <vector>\n#include <cctype>\n'


def jobs(tier, seed):
    out = []
    for k, nm in enumerate(NAMES):
        ap, sc = 'Endgame_%d__applies' % k, 'Endgame_%d__strongSideScore' % k
        pre = ''
        if nm == 'KPK':
            pre += '  __CPROVER_havoc_object(BITBASE);\n'
        if nm == 'KQKRPs':
            pre += '  for (uint32_t s = 0; s < 64; s++) KING_MASK[s] = spec_king(s);   /* C11: geom/rays_masks */\n'
        h = ND + ('struct Position W_P;\nvoid h_sym(void) { struct Position P = nondet_Position(); __CPROVER_assume(wf_pos(&P)); W_P = P;\n'
                  '  /* the property excludes positions that are drawn by material (bare kings or a single minor piece) */\n'
                  '  { int minors = P._piece_count[2] + P._piece_count[3] + P._piece_count[8] + P._piece_count[9]; int others = P._piece_count[1] + P._piece_count[4] + P._piece_count[5] + P._piece_count[7] + P._piece_count[10] + P._piece_count[11]; __CPROVER_assume(!(others == 0 && minors <= 1)); }\n' + pre +
                  '  struct Position M; mirror_pos(&P, &M);\n'
                  '  struct Endgame_%d EW = {WHITE, BLACK, W_KING, B_KING}, EB = {BLACK, WHITE, B_KING, W_KING};\n'
                  '  _Bool aw = %s(&EW, &P), ab = %s(&EB, &M), bw = %s(&EB, &P);\n'
                  '  __CPROVER_assert(aw == ab, "applies: WHITE instance on P == BLACK instance on mirror(P)");\n'
                  '  __CPROVER_assert(!(aw && bw), "applies: the WHITE and the BLACK instance never both apply to one position");\n'
                  '  if (aw) { int64_t vw = %s(&EW, &P), vb = %s(&EB, &M);\n'
                  '    __CPROVER_assert(vw == vb, "strongSideScore: WHITE instance on P == BLACK instance on mirror(P)"); }\n'
                  % (k, ap, ap, ap, sc, sc) + CANARY + '}\n')
        kw = {}
        if nm == 'KBPsKB':
            kw = dict(contracts={'slider_attack_3': SL3}, nobody=['slider_attack_3'], replace=['slider_attack_3'])
        j = Job('endgame/' + nm, TUS, [ap, sc], h, 'h_sym', spec=SPEC + ['geom.h'], post_spec=POST + ['posmirror.h'], timeout=1800,
                unwindset=loops_unwind([('Endgame_', 11)]), route='relational harness; piece-list loops closed-by-complete-unwinding(11)',
                replay=REPLAY, note='K%s: applies and strongSideScore agree between the WHITE instance on P and the BLACK instance on the mirrored position' % nm[1:], **kw)
        j.replay_decl = REPLAY_DECL
        out.append(j)
    return out
