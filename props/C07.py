"""C07 - check, mate, stalemate and draw predicates agree with the game history.

  is_in_check        under contract == the mailbox rule (own king attacked), both colours, all well-formed positions
  rule50             == (half-move clock >= 100); the clock's meaning is C02's
  enough_material    == not (bare kings or a single minor piece), from the piece counts (nibble packing injective for counts <= 10)
  is_repeated / threefold_repetition
                     == "some / at least two earlier entries of the key history equal the current key", scanning ALL earlier
                        positions of the game (history[0 .. counter-2]); the history is the key sequence of the game by C02's
                        postcondition (one entry appended per move), keys identify positions by C04 (up to collisions)
  is_draw            == rule50 or threefold or insufficient material
  is_checkmate / is_stalemate
                     == (no move generated for the side to move) && / && not (side to move in check), over the contracts of
                        generate_moves (emitted count abstract; its meaning - the number of legal moves - is C01's) and is_in_check
  generate_moves     the side-dispatch wrapper over the interface part of generate_legal_moves<side>'s C01 contract
  is_move_legal      == "the move is in the list generate_moves emits" (loop contract over the scan; public API of movegen.h, no caller in engine/ on the pinned tree)
"""
from runner import Job, tu
from props.poscommon import *
from props.C15 import SL

LEVEL = 'proof'
EXPLANATION = ('Each predicate under contract against its rule-level meaning for all well-formed positions and all histories up to the supported game length; '
               'repetition scans are closed by complete unwinding to the history capacity (800).')
ASSUMPTIONS = ['64-bit keys do not collide (same key <=> same placement/side/rights/e.p., C04)', 'the history array holds the keys of all positions of the game since the last FEN (C02: do_move appends exactly the new key)',
               'slider_attack == ray walk, KNIGHT_MASK == knight moves (C11)',
               'is_checkmate / is_stalemate: decided relative to the contract of generate_moves (emitted count == number of legal moves, C01; the side dispatch of the generate_moves wrapper is its own group) and of is_in_check',
               'half-move clock is a uint8_t: games keep it <= 150 (precondition of do_move in C02)']
NOT_COVERED = ['tools/regression game adjudication loop']

TUS7 = tu('position.cpp', 'types.cpp', 'zobrist_hash.cpp', 'bithacks.cpp', 'move_bitboards.cpp')
CHK, R50, ENO, REP, TF, DRW = ('Position__is_in_check', 'Position__rule50', 'Position__enough_material', 'Position__is_repeated',
                               'Position__threefold_repetition', 'Position__is_draw')
KEYX = '(p->_zobrist_hash._piece_key ^ p->_zobrist_hash._pawn_key ^ p->_zobrist_hash._enpassant_key ^ p->_zobrist_hash._castling_key ^ p->_zobrist_hash._color_key)'
HSPEC = '''
/* number of earlier positions of the game (all entries before the current one) whose key equals the current key */
int spec_occurrences(const struct Position *p)
{ int n = 0; uint64_t key = %s; for (int i = 0; i < 800; i++) if (i <= p->_history_counter - 2 && p->_history[i] == key) n++; return n; }
_Bool spec_insufficient(const struct Position *p)
{ int minors = p->_piece_count[2] + p->_piece_count[3] + p->_piece_count[8] + p->_piece_count[9];
  int others = p->_piece_count[1] + p->_piece_count[4] + p->_piece_count[5] + p->_piece_count[7] + p->_piece_count[10] + p->_piece_count[11];
  return others == 0 && minors <= 1; }
''' % KEYX
HDECL = 'struct Position; int spec_occurrences(const struct Position *p); _Bool spec_insufficient(const struct Position *p);\nSPos G_P0; struct Position W_P; uint32_t W_side;\n'
WFH = 'wf_pos(self) && self->_history_counter >= 1 && self->_history_counter <= 800'

C = {
    CHK: '__CPROVER_requires(wf_pos(self) && sp_is(self, &G_P0) && side <= 1 && !sp_in_check(G_P0.board, 1 - G_P0.side))\n__CPROVER_assigns()\n__CPROVER_ensures(__CPROVER_return_value == sp_in_check(G_P0.board, side))\n',
    R50: '__CPROVER_requires(wf_pos(self))\n__CPROVER_assigns()\n__CPROVER_ensures(__CPROVER_return_value == (self->_half_move_counter >= 100))\n',
    ENO: '__CPROVER_requires(wf_pos(self))\n__CPROVER_assigns()\n__CPROVER_ensures(__CPROVER_return_value == !spec_insufficient(self))\n',
    REP: '__CPROVER_requires(%s)\n__CPROVER_assigns()\n__CPROVER_ensures(__CPROVER_return_value == (spec_occurrences(self) >= 1))\n' % WFH,
    TF: '__CPROVER_requires(%s)\n__CPROVER_assigns()\n__CPROVER_ensures(__CPROVER_return_value == (spec_occurrences(self) >= 2))\n' % WFH,
    DRW: '__CPROVER_requires(%s)\n__CPROVER_assigns()\n__CPROVER_ensures(__CPROVER_return_value == (self->_half_move_counter >= 100 || spec_occurrences(self) >= 2 || spec_insufficient(self)))\n' % WFH,
}
REPLAY_CHK = {'needs': ['W_side'], 'body': '''
  SPos P0; VerifAccess::abs(P, P0); uint32_t side = (uint32_t)W_side;
  bool got = P.is_in_check((Color)side), want = sp_in_check(P0.board, side);
  printf("position %s: is_in_check(%u) = %d, rules say %d\\n", P.fen().c_str(), side, got, want);
  if (got != want) printf("CONFIRMED is_in_check disagrees with the rules\\n"); else printf("NOT-REPRODUCED\\n");
''', 'access': '''
  static void abs(const Position& P, SPos& o) { for (int s = 0; s < 64; s++) o.board[s] = (sp_pc)P._board[s]; o.side = (uint32_t)P._current_side; o.rights = (uint32_t)P._castling_rights; o.ep = (uint32_t)P._enpassant_square; o.half = P._half_move_counter; o.ply = P._ply_counter; }
'''}
REPLAY_HIST = {'needs': ['W_P'], 'body': '''
  uint64_t key = P.hash(); int n = 0; for (int i = 0; i <= VerifAccess::hc(P) - 2; i++) if (VerifAccess::hist(P, i) == key) n++;
  bool rep = P.is_repeated(), tf = P.threefold_repetition();
  printf("history of %d positions, current key occurred %d time(s) before: is_repeated = %d, threefold_repetition = %d\\n", VerifAccess::hc(P), n, rep, tf);
  if (rep != (n >= 1) || tf != (n >= 2)) printf("CONFIRMED repetition predicates disagree with the key history\\n"); else printf("NOT-REPRODUCED\\n");
''', 'access': '''
  static int hc(const Position& P) { return P._history_counter; }
  static uint64_t hist(const Position& P, int i) { return P._history[i]; }
'''}


def jobs(tier, seed):
    out = []
    common = dict(spec=SPEC + ['geom.h'], post_spec=POST, pre_text=HDECL)
    h = ND + ('void h_c(void) { struct Position P = nondet_Position(); uint32_t s = nondet_u32(); sp_of(&P, &G_P0); W_P = P; W_side = s;\n'
              '  for (uint32_t q = 0; q < 64; q++) KNIGHT_MASK[q] = spec_knight(q);   /* C11: geom/rays_masks */\n'
              '  %s(&P, s);' % CHK + CANARY + '}\n')
    out.append(Job('is_in_check', TUS7, [CHK], h, 'h_c', contracts=dict({k: SL[k] for k in ('slider_attack_3', 'slider_attack_4')}, **{CHK: C[CHK]}), nobody=['slider_attack_3', 'slider_attack_4'], enforce=CHK, replace=['slider_attack_3', 'slider_attack_4'],
                   timeout=1800, replay=REPLAY_CHK, note='is_in_check(side) == own king attacked under the mailbox rules', **common))
    for fn, nm, extra in ((R50, 'rule50', {}), (ENO, 'enough_material', dict(unwindset=loops_unwind([('verif_find', 6)])))):
        h = ND + 'void h_p(void) { struct Position P = nondet_Position(); W_P = P; %s(&P);' % fn + CANARY + '}\n'
        j = Job(nm, TUS7, [fn], h, 'h_p', contracts={fn: C[fn]}, enforce=fn, timeout=1800, note=nm + ' == its rule-level meaning', **dict(common, **extra))
        j.harness = HSPEC + j.harness
        out.append(j)
    # history scans under loop contracts (unbounded), both directions stated through ghosts instead of a count:
    #   G_TWO : two distinct earlier entries G_I < G_J equal the key   =>  threefold (and is_repeated) must answer true
    #   G_ONE : one earlier entry G_I equals the key                    =>  is_repeated must answer true
    #   G_AM1 : every earlier entry except possibly G_ONLY differs      =>  threefold must answer false
    #   G_NONE: every earlier entry differs                             =>  is_repeated must answer false
    HG = ('int G_I, G_J, G_ONLY; _Bool G_TWO, G_ONE, G_AM1, G_NONE;\n')
    KEYS = '(self->_zobrist_hash._piece_key ^ self->_zobrist_hash._pawn_key ^ self->_zobrist_hash._enpassant_key ^ self->_zobrist_hash._castling_key ^ self->_zobrist_hash._color_key)'
    GHREQ = ('__CPROVER_requires(self->_history_counter >= 1 && self->_history_counter <= 800)\n'
             '__CPROVER_requires(G_TWO ==> (0 <= G_I && G_I < G_J && G_J <= self->_history_counter - 2 && self->_history[G_I] == %s && self->_history[G_J] == %s))\n' % (KEYS, KEYS) +
             '__CPROVER_requires(G_ONE ==> (0 <= G_I && G_I <= self->_history_counter - 2 && self->_history[G_I] == %s))\n' % KEYS +
             '__CPROVER_requires(G_AM1 ==> spec_all_differ_but(self, G_ONLY))\n'
             '__CPROVER_requires(G_NONE ==> spec_all_differ_but(self, -1))\n__CPROVER_assigns()\n')
    c_rep = GHREQ + '__CPROVER_ensures((G_ONE || G_TWO) ==> __CPROVER_return_value)\n__CPROVER_ensures(G_NONE ==> !__CPROVER_return_value)\n'
    c_tf = GHREQ + '__CPROVER_ensures(G_TWO ==> __CPROVER_return_value)\n__CPROVER_ensures((G_AM1 || G_NONE) ==> !__CPROVER_return_value)\n'
    c_drw = ('__CPROVER_requires(wf_pos(self))\n' + GHREQ +
             '__CPROVER_ensures((G_TWO || self->_half_move_counter >= 100 || spec_insufficient(self)) ==> __CPROVER_return_value)\n'
             '__CPROVER_ensures(((G_AM1 || G_NONE) && self->_half_move_counter < 100 && !spec_insufficient(self)) ==> !__CPROVER_return_value)\n')
    lc_rep = {(REP, 1): ['__CPROVER_assigns(i)', '__CPROVER_loop_invariant(-1 <= i && i <= self->_history_counter - 2)',
                         '__CPROVER_loop_invariant((G_ONE || G_TWO) ==> G_I <= i)', '__CPROVER_decreases(i + 1)']}
    lc_tf = {(TF, 1): ['__CPROVER_assigns(i, count)', '__CPROVER_loop_invariant(-1 <= i && i <= self->_history_counter - 2 && 1 <= count && count <= 2)',
                       '__CPROVER_loop_invariant(G_TWO ==> count >= 1 + (G_J > i ? 1 : 0) + (G_I > i ? 1 : 0))',
                       '__CPROVER_loop_invariant(G_AM1 ==> count <= 1 + (G_ONLY > i ? 1 : 0))', '__CPROVER_loop_invariant(G_NONE ==> count == 1)', '__CPROVER_decreases(i + 1)']}
    ALLD = '''
/* every earlier entry of the key history, except index `but` (use -1 for none), differs from the current key */
_Bool spec_all_differ_but(const struct Position *p, int but)
{ _Bool ok = 1; uint64_t key = %s; for (int i = 0; i < 800; i++) ok = ok && (i > p->_history_counter - 2 || i == but || p->_history[i] != key); return ok; }
''' % KEYX
    hdecl2 = HDECL + HG + 'struct Position; _Bool spec_all_differ_but(const struct Position *p, int but);\n'
    # is_draw over the contract of threefold_repetition.  The contract used here is the frame part of the proven one
    # (threefold_repetition assigns nothing, proven in C07/threefold_repetition) with the returned value left abstract: the
    # ghost G_TFV stands for "the value threefold_repetition returns on this position" (a pure deterministic function of the
    # position, since it assigns nothing and reads only the position).  is_draw must equal
    #        fifty-move rule  ||  that value  ||  insufficient material
    # for every value of the ghost; the meaning of the value itself is C07/threefold_repetition's postcondition.
    c_tfa = ('__CPROVER_requires(self->_history_counter >= 1 && self->_history_counter <= 800)\n__CPROVER_assigns()\n'
             '__CPROVER_ensures(__CPROVER_return_value == G_TFV)\n')
    c_drwa = ('__CPROVER_requires(wf_pos(self) && self->_history_counter >= 1 && self->_history_counter <= 800)\n__CPROVER_assigns()\n'
              '__CPROVER_ensures(__CPROVER_return_value == (self->_half_move_counter >= 100 || G_TFV || spec_insufficient(self)))\n')
    h = HSPEC + ND + ('void h_h(void) { struct Position P = nondet_Position(); W_P = P; G_TFV = nondet_bool();\n'
                      '  %s(&P);' % DRW + CANARY + '}\n')
    kwd = dict(common); kwd['pre_text'] = HDECL + '_Bool G_TFV;\n'
    out.append(Job('is_draw', TUS7, [DRW], h, 'h_h', contracts={DRW: c_drwa, TF: c_tfa}, nobody=[TF], enforce=DRW, replace=[TF],
                   unwindset=loops_unwind([('verif_find', 6)]), timeout=1800, note='is_draw == fifty-move rule or (the value of) threefold_repetition or insufficient material; threefold_repetition replaced by the frame part of its proven contract with an abstract result', **kwd))
    # is_checkmate / is_stalemate over the contracts of generate_moves (C01) and is_in_check (above).  Both callees are applied with an
    # abstract result: the ghost G_N stands for "the number of moves generate_moves emits" - by C01 (leaves, composition, assembly,
    # theorem) that is the number of legal moves of the side to move - and the ghost G_CHKV for "the value is_in_check returns for the
    # side to move" - by C07/is_in_check that is "the side to move is in check".  The obligations here pin what the two predicates do
    # with those answers, for every value of both: they must ask about the position itself, for the side TO MOVE, generate into a
    # buffer of full capacity that they own, and answer  (no legal move) && in check  resp.  (no legal move) && !in check.
    MATE, STALE = 'Position__is_checkmate', 'Position__is_stalemate'
    c_gm = ('__CPROVER_requires($1 == G_SELF && $2 <= 1 && $2 == $1->_current_side && __CPROVER_same_object($3, MOVE_LIST) && __CPROVER_POINTER_OFFSET($3) % sizeof(MOVE_LIST[0]) == 0 && __CPROVER_POINTER_OFFSET($3) + sizeof(MOVE_LIST[0]) <= __CPROVER_OBJECT_SIZE(MOVE_LIST))\n'
            '__CPROVER_assigns(__CPROVER_object_whole(MOVE_LIST))\n'
            '__CPROVER_ensures(__CPROVER_same_object(__CPROVER_return_value, MOVE_LIST) && __CPROVER_POINTER_OFFSET(__CPROVER_return_value) == __CPROVER_POINTER_OFFSET(__CPROVER_old($3)) + 4 * (size_t)G_N)\n')
    c_chk = ('__CPROVER_requires(self == G_SELF && side == self->_current_side)\n__CPROVER_assigns()\n__CPROVER_ensures(__CPROVER_return_value == G_CHKV)\n')
    for fn, nm, want in ((MATE, 'is_checkmate', 'G_CHKV'), (STALE, 'is_stalemate', '!G_CHKV')):
        c_fn = ('__CPROVER_requires(wf_pos(self) && self == G_SELF && G_N <= 255)\n__CPROVER_assigns(__CPROVER_object_whole(MOVE_LIST))\n'
                '__CPROVER_ensures(__CPROVER_return_value == (G_N == 0 && %s))\n' % want)
        h = ND + ('void h_m(void) { struct Position P = nondet_Position(); W_P = P; G_SELF = &P; G_N = nondet_u32(); G_CHKV = nondet_bool();\n'
                  '  %s(&P);' % fn + CANARY + '}\n')
        kwm = dict(common); kwm['pre_text'] = HDECL + 'const struct Position *G_SELF; uint32_t G_N; _Bool G_CHKV;\n'
        out.append(Job(nm, tu('movegen.cpp', 'position.cpp', 'types.cpp', 'zobrist_hash.cpp', 'bithacks.cpp', 'move_bitboards.cpp'), [fn], h, 'h_m',
                       contracts={fn: c_fn, 'generate_moves': c_gm, CHK: c_chk}, nobody=['generate_moves', CHK], enforce=fn, replace=['generate_moves', CHK], stubs=['generate_moves'],
                       force_globals=['MOVE_LIST'], timeout=1800,
                       note=nm + ' == (the side to move has no legal move) && ' + ('in check' if want == 'G_CHKV' else 'not in check') +
                       ': generate_moves replaced by its contract with the emitted count abstract (meaning: C01), is_in_check by its contract with the value abstract (meaning: C07/is_in_check); '
                       'both must be asked about this position and the side to move, into a whole row (MAX_MOVES entries) of MOVE_LIST', **kwm))
    # the generate_moves wrapper itself: dispatch on the side handed in; generate_legal_moves<side> by the interface part of its C01
    # contract (it must be called for the side to move, C01 compose precondition `_current_side == side`), emitted count abstract
    GLM = ['generate_legal_moves_0', 'generate_legal_moves_1']
    c_glm = {GLM[sd]: ('__CPROVER_requires($1 == G_SELF && $1->_current_side == %d && __CPROVER_same_object($2, MOVE_LIST) && __CPROVER_POINTER_OFFSET($2) %% sizeof(MOVE_LIST[0]) == 0 && __CPROVER_POINTER_OFFSET($2) + sizeof(MOVE_LIST[0]) <= __CPROVER_OBJECT_SIZE(MOVE_LIST))\n' % sd +
                       '__CPROVER_assigns(__CPROVER_object_whole(MOVE_LIST))\n'
                       '__CPROVER_ensures(__CPROVER_same_object(__CPROVER_return_value, MOVE_LIST) && __CPROVER_POINTER_OFFSET(__CPROVER_return_value) == __CPROVER_POINTER_OFFSET(__CPROVER_old($2)) + 4 * (size_t)G_N)\n') for sd in (0, 1)}
    h = ND + ('void h_w(void) { struct Position P = nondet_Position(); W_P = P; G_SELF = &P; G_N = nondet_u32(); __CPROVER_assume(G_N <= 255); uint32_t row = nondet_u32(); __CPROVER_assume(row < 160);\n'
              '  generate_moves(&P, P._current_side, MOVE_LIST[row]);' + CANARY + '}\n')
    kwm = dict(common); kwm['pre_text'] = HDECL + 'const struct Position *G_SELF; uint32_t G_N; _Bool G_CHKV;\n'
    out.append(Job('generate_moves_wrapper', tu('movegen.cpp', 'position.cpp', 'types.cpp', 'zobrist_hash.cpp', 'bithacks.cpp', 'move_bitboards.cpp'), ['generate_moves'], h, 'h_w',
                   contracts=dict(c_glm, generate_moves=c_gm), nobody=GLM, enforce='generate_moves', replace=GLM, stubs=GLM, force_globals=['MOVE_LIST'], timeout=1800,
                   note='generate_moves(position, side to move, list) hands the position and the list to generate_legal_moves<side to move> and returns its end pointer: the wrapper inherits the C01 contract (emitted count abstract)', **kwm))
    # is_move_legal(position, m) (public API of movegen.h): == "m is among the moves generate_moves
    # emits", i.e. m is legal by C01.  generate_moves by contract, list contents abstract except for the ghost facts
    #   G_LEGAL  : the ghost move G_MV stands at index G_IDX < G_N of the emitted list       (witness)
    #   !G_LEGAL : none of the G_N emitted moves equals G_MV                                  (a 512-term conjunction over the scratch list, written out: MAX_MOVES entries)
    # the linear scan is closed by a loop contract (any list length below the MAX_MOVES capacity).
    IML = 'is_move_legal'
    c_gmt = ('__CPROVER_requires($1 == G_SELF && $2 <= 1 && $2 == $1->_current_side && __CPROVER_same_object($3, TEMP_MOVE_LIST) && __CPROVER_POINTER_OFFSET($3) == 0)\n'
             '__CPROVER_assigns(__CPROVER_object_whole(TEMP_MOVE_LIST))\n'
             '__CPROVER_ensures(__CPROVER_same_object(__CPROVER_return_value, TEMP_MOVE_LIST) && __CPROVER_POINTER_OFFSET(__CPROVER_return_value) == 4 * (size_t)G_N)\n'
             '__CPROVER_ensures(G_LEGAL ==> (G_IDX < G_N && TEMP_MOVE_LIST[G_IDX] == G_MV))\n'
             '__CPROVER_ensures(!G_LEGAL ==> (%s))\n' % ' && '.join('(%du >= G_N || TEMP_MOVE_LIST[%d] != G_MV)' % (i, i) for i in range(512)))
    c_iml = ('__CPROVER_requires(wf_pos($1) && $1 == G_SELF && $2 == G_MV && G_N < sizeof(TEMP_MOVE_LIST) / 4)\n__CPROVER_assigns(__CPROVER_object_whole(TEMP_MOVE_LIST))\n'
             '__CPROVER_ensures(__CPROVER_return_value == G_LEGAL)\n')
    lc_iml = {(IML, 1): ['__CPROVER_assigns(it)',
                         '__CPROVER_loop_invariant(__CPROVER_same_object(it, TEMP_MOVE_LIST) && __CPROVER_POINTER_OFFSET(it) % 4 == 0 && __CPROVER_POINTER_OFFSET(it) <= 4 * (size_t)G_N)',
                         '__CPROVER_loop_invariant(G_LEGAL ==> __CPROVER_POINTER_OFFSET(it) <= 4 * (size_t)G_IDX)',
                         '__CPROVER_decreases(4 * (size_t)G_N - __CPROVER_POINTER_OFFSET(it))']}
    CAP = '  __CPROVER_assert(sizeof(TEMP_MOVE_LIST) == 4 * 512, "capacity of the scratch list is the 512 entries the absence clause enumerates");\n'

    h = ND + ('void h_l(void) { struct Position P = nondet_Position(); W_P = P; G_SELF = &P; G_N = nondet_u32(); G_MV = nondet_u32(); G_IDX = nondet_u32(); G_LEGAL = nondet_bool();\n'
              + CAP + '  is_move_legal(&P, G_MV);' + CANARY + '}\n')
    kwl = dict(common); kwl['pre_text'] = HDECL + 'const struct Position *G_SELF; uint32_t G_N, G_MV, G_IDX; _Bool G_LEGAL;\n'
    out.append(Job('is_move_legal', tu('movegen.cpp', 'position.cpp', 'types.cpp', 'zobrist_hash.cpp', 'bithacks.cpp', 'move_bitboards.cpp'), [IML], h, 'h_l',
                   contracts={IML: c_iml, 'generate_moves': c_gmt}, nobody=['generate_moves'], enforce=IML, replace=['generate_moves'], stubs=['generate_moves'], loopc=lc_iml, loop_contracts=True,
                   expect=['loop_invariant_step'], force_globals=['TEMP_MOVE_LIST'], timeout=1800, route='loop contract (unbounded): the scan of the generated list',
                   note='is_move_legal(position, m) == m is one of the moves generate_moves emits for the side to move (legal by C01): generate_moves by contract with ghost witness / ghost absence of m in the emitted list', **kwl))
    # each scan is checked in two groups, split on which ghost witness is in force (same contract, same loop contract, smaller case space):
    #   /witnessed : some earlier occurrence(s) are witnessed (G_ONE or G_TWO)  -> the "answers true" direction
    #   /absent    : no witness flag set; G_NONE / G_AM1 (all earlier entries, but at most one, differ) -> the "answers false" direction
    for fn, nm, cc, lc in ((REP, 'is_repeated', c_rep, lc_rep), (TF, 'threefold_repetition', c_tf, lc_tf)):
        for case, assume in (('witnessed', '__CPROVER_assume((G_ONE || G_TWO) && !G_NONE && !G_AM1);'), ('absent', '__CPROVER_assume(!G_ONE && !G_TWO);')):
            h = HSPEC + ALLD + ND + ('void h_h(void) { struct Position P = nondet_Position(); W_P = P;\n'
                                     '  G_I = nondet_int(); G_J = nondet_int(); G_ONLY = nondet_int(); G_TWO = nondet_bool(); G_ONE = nondet_bool(); G_AM1 = nondet_bool(); G_NONE = nondet_bool();\n'
                                     '  ' + assume + '\n'
                                     '  %s(&P);' % fn + CANARY + '}\n')
            kw = dict(common); kw['pre_text'] = hdecl2
            out.append(Job(nm + '/' + case, TUS7, [fn], h, 'h_h', contracts={fn: cc}, loopc=lc, enforce=fn, loop_contracts=True, timeout=2400, expect=['loop_invariant_step'], backend='cadical',
                           replay=REPLAY_HIST, route='loop contract (unbounded): the scan of the key history',
                           note=nm + ': answers true when the ghost-witnessed earlier occurrences exist, false when all earlier entries (but at most one) differ - all earlier positions are scanned; case: ' + case, **kw))
    # dependency obligations, THOROUGH tier only: the leaf generators of C01 (the quick leaf groups of C01's own check, re-run here under the
    # prefix dep_C01/), because is_checkmate / is_stalemate / is_move_legal are decided relative to the generate_moves contract: a change
    # inside a generator that makes a mate/stalemate answer wrong (seed C07b) fails its leaf obligation in this command too, not only in C01's
    if tier == 'thorough':
        from props import C01 as _C01
        for j in _C01.jobs('quick', seed):
            if j.name.startswith('leaf/') and j.tier == 'quick':
                j.name = 'dep_C01/' + j.name
                j.tier = 'thorough'
                out.append(j)
    return out
