"""C02 - making a move follows the rules of chess.

  mut/*      add_piece / remove_piece / move_piece under contract: the full representation invariant (board == bitboards ==
             piece lists) is preserved, exact effect on the touched square(s), key deltas (shared with C03/C04)
  do_move/*  Position::do_move under contract with the three mutators BY CONTRACT: for every well-formed position and every
             pseudo-legal move, the resulting placement (ghost square), side, castling rights, e.p. square, half-move clock and ply
             equal spec_after (the mailbox rules of spec/pos.h); the representation invariant and the state invariant hold
             afterwards; the history gets exactly one new entry (the new key); the returned undo record packs the old state
"""
from runner import Job, tu
from props.poscommon import *

LEVEL = 'proof'
EXPLANATION = ('Position::do_move is checked against the mailbox rules (spec/pos.h: castling moves king and rook and increments the clock, '
               'rook captures on home squares revoke rights, e.p. removes the pawn behind the target square, promotion replaces the pawn) '
               'for every well-formed position and every pseudo-legal move; sequences of any length are covered because the representation '
               'invariant wf is a pre- and postcondition (induction over the move sequence is the contract discipline).')
ASSUMPTIONS = ['Position::fen() / Uci::position_command (iostream, std::map) are outside the verified subset: the six FEN fields are printed from exactly the fields constrained here (_board, _current_side, _castling_rights, _enpassant_square, _half_move_counter, _ply_counter)',
               'game length: _history_counter < MAX_PLIES (800) and half-move clock <= 150 are preconditions of do_move here (their violation is C10 territory)',
               'a promotion requires room in the piece list of the promoted kind (< 10 of that kind): always true in positions reachable by legal play',
               'spec/pos.h rule oracle (validated against perft counts at development time)']
NOT_COVERED = ['FEN text output/input', 'UCI position command parsing']

DO = 'Position__do_move'
GHOST = 'SPos G_P0; uint32_t G_SQ; uint32_t G_PC; int G_I, G_J; int G_HI; uint32_t G_CLASS;\nstruct Position W_P; uint32_t W_m;\n'
KEY = '(self->_zobrist_hash._piece_key ^ self->_zobrist_hash._pawn_key ^ self->_zobrist_hash._enpassant_key ^ self->_zobrist_hash._castling_key ^ self->_zobrist_hash._color_key)'

PRE_DO = ('__CPROVER_requires(wf_pos(self) && sp_is(self, &G_P0) && sp_pseudo_legal(&G_P0, move) && G_SQ < 64 && G_PC >= 1 && G_PC <= 12)\n'
          '__CPROVER_requires(self->_history_counter >= 1 && self->_history_counter < 800 && self->_half_move_counter <= 150 && self->_ply_counter >= 0 && self->_ply_counter < 100000)\n'
          '__CPROVER_requires(G_HI >= 0 && G_HI < self->_history_counter)\n'
          '__CPROVER_requires(spec_move_promo(move) == 0 || self->_piece_count[sp_piece(self->_current_side, spec_move_promo(move))] < 10)\n'
          '__CPROVER_requires(move_class(&G_P0, move) == G_CLASS)\n'
          '__CPROVER_assigns(__CPROVER_object_whole(self))\n')
# the postcondition is checked in parts (one SAT query each, formula sliced to the part): same precondition, same function body
PARTS = {
    'state': ('__CPROVER_ensures(self->_current_side == 1 - G_P0.side)\n'
              '__CPROVER_ensures(self->_castling_rights == sp_after_rights(&G_P0, move))\n'
              '__CPROVER_ensures(self->_enpassant_square == sp_after_ep(&G_P0, move))\n'
              '__CPROVER_ensures(self->_half_move_counter == sp_after_half(&G_P0, move))\n'
              '__CPROVER_ensures(self->_ply_counter == G_P0.ply + 1)\n'
              '__CPROVER_ensures(__CPROVER_return_value == spec_mi_pack(sp_captured_kind(&G_P0, move), G_P0.rights, G_P0.ep, sp_is_ep(&G_P0, move), G_P0.half))\n'),
    'board': '__CPROVER_ensures(self->_board[G_SQ] == sp_after_piece(&G_P0, move, G_SQ))\n',
    'bitboards': '__CPROVER_ensures(wf_board_at(self, G_SQ))\n',
    'lists': '__CPROVER_ensures(wf_row_at(self, G_PC, G_SQ, G_I, G_J))\n',
    'wf_state': '__CPROVER_ensures(wf_state(self))\n',
    'history': ('__CPROVER_ensures(self->_history_counter == __CPROVER_old(self->_history_counter) + 1 && self->_history[self->_history_counter - 1] == %s)\n' % KEY +
                '__CPROVER_ensures(self->_history[G_HI] == __CPROVER_old(self->_history[G_HI]))\n'),
}
C_DO = PRE_DO + ''.join(PARTS.values())

CLASSES = ['castling', 'enpassant', 'promotion', 'capture', 'quiet']
MOVE_CLASS = '''
/* case split of the obligation by move class (one path through do_move per query) */
static inline uint32_t move_class(const SPos *P, uint32_t m)
{ if (spec_move_ccode(m) != 0) return 0; if (sp_is_ep(P, m)) return 1; if (spec_move_promo(m) != 0) return 2; if (P->board[spec_move_to(m)] != 0) return 3; return 4; }
'''

REPLAY_DO = {'needs': ['W_m'], 'body': '''
  SPos P0; VerifAccess::abs(P, P0);
  std::string fen0 = P.fen();
  uint32_t m = (uint32_t)W_m;
  if (!sp_pseudo_legal(&P0, m)) { printf("counterexample move is not pseudo-legal in the witness position\\n"); return 0; }
  P.do_move((Move)m);
  SPos Q, R; sp_after(&P0, m, &Q); VerifAccess::abs(P, R);
  int bad = 0;
  for (int s = 0; s < 64; s++) if (Q.board[s] != R.board[s]) { printf("square %d: engine has piece %u, rules say %u\\n", s, R.board[s], Q.board[s]); bad++; }
  if (Q.side != R.side) { printf("side: engine %u rules %u\\n", R.side, Q.side); bad++; }
  if (Q.rights != R.rights) { printf("castling rights: engine %u rules %u\\n", R.rights, Q.rights); bad++; }
  if (Q.ep != R.ep) { printf("e.p. square: engine %u rules %u\\n", R.ep, Q.ep); bad++; }
  if (Q.half != R.half) { printf("half-move clock: engine %u rules %u\\n", R.half, Q.half); bad++; }
  if (Q.ply != R.ply) { printf("ply: engine %d rules %d\\n", R.ply, Q.ply); bad++; }
  printf("position %s move 0x%x -> %s\\n", fen0.c_str(), m, P.fen().c_str());
  if (bad) printf("CONFIRMED do_move disagrees with the rules of chess in %d field(s)\\n", bad); else printf("NOT-REPRODUCED (FEN-visible fields agree; the failing obligation concerns internal state)\\n");
''', 'access': '''
  static void abs(const Position& P, SPos& o) { for (int s = 0; s < 64; s++) o.board[s] = (uint32_t)P._board[s]; o.side = (uint32_t)P._current_side; o.rights = (uint32_t)P._castling_rights; o.ep = (uint32_t)P._enpassant_square; o.half = P._half_move_counter; o.ply = P._ply_counter; }
'''}


def do_move_jobs():
    out = []
    for ci, cname in enumerate(CLASSES):
        for part, ens in PARTS.items():
            h = ND + ('void h_do(void) { struct Position P = nondet_Position(); uint32_t m = nondet_u32();\n'
                      '  G_SQ = nondet_u32(); G_PC = nondet_u32(); G_I = nondet_int(); G_J = nondet_int(); G_HI = nondet_int(); G_CLASS = %d; sp_of(&P, &G_P0); W_P = P; W_m = m;\n'
                      '  %s(&P, m);' % (ci, DO) + CANARY + '}\n')
            out.append(Job('do_move/%s/%s' % (cname, part), PTUS, [DO], h, 'h_do', contracts={DO: PRE_DO + ens},
                           enforce=DO, spec=SPEC, post_spec=POST, pre_text=GHOST + MOVE_CLASS, timeout=2400, flags=['--slice-formula'],
                           unwindset=loops_unwind([('Position__remove_piece', 11), ('Position__move_piece', 11)]),
                           canary=(part == 'state'), backend=('cadical' if part == 'lists' else 'minisat'), tier=('thorough' if part == 'lists' else 'quick'),
                           route='closed-by-complete-unwinding(11): piece lists have 10 slots; the three piece mutators are inlined (dfcc call replacement havocs byte slices of the 7.5 KB Position object and cost 5-10 M variables per query)',
                           replay=REPLAY_DO,
                           note='do_move == rules of chess; move class: %s; part of the postcondition: %s' % (cname, part)))
    return out


def jobs(tier, seed):
    return mutator_jobs() + do_move_jobs()
