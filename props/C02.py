"""C02 - making a move follows the rules of chess (work in progress)."""
from runner import Job, tu
from props.poscommon import *

LEVEL = 'proof'
EXPLANATION = ''
ASSUMPTIONS = []


def jobs(tier, seed):
    return mutator_jobs()
