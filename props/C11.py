"""C11 - attack tables are exact for every square and occupancy.

  geom/*    the real init_* code is executed symbolically (closed code, no inputs) and every entry of RAYS,
            KNIGHT_MASK, KING_MASK, BISHOP/ROOK_MASK, CASTLING_PATHS, LINES, FULL_LINES is compared with the
            geometric definition for a nondeterministic index (all 8x64 / 64 / 64x64 entries)
  shift/*   shift<dir> (10 directions), shift(bb,dir), pawn_attacks<side>, pawn_attacks(bb,side), king_attacks under
            contract, point-wise with a ghost target square, for all 2^64 bitboards
  magic/*   get_blockers_from_index == bit deposit; get_rook/bishop_attacks == ray walk; the real table-fill loops of
            init_rook_magics / init_bishop_magics under loop contracts with ghost square/occupancy (the table reduced to
            its tracked cell: one-cell projection); slider_attack<BISHOP|ROOK|QUEEN> == ray walk for every square and
            every 64-bit occupancy
"""
import re
from runner import Job, NativeJob, tu

LEVEL = 'proof'
EXPLANATION = ('Geometry tables: symbolic execution of the real init code, compared entry-wise with spec/geom.h for a symbolic index. '
               'Magic look-up: loop contracts on the real fill loops with ghost (square, occupancy); the collision-freedom of the magic '
               'constants is the step obligation of the index loop; slider_attack composed with the init contract gives look-up == ray walk '
               'for all 64 squares and all 2^64 occupancies.')
ASSUMPTIONS = ['one-cell projection of ROOK_TABLE/BISHOP_TABLE (accesses to other cells read/write a havocked scratch word): sound over-approximation for properties of the tracked cell',
               'Release build flags (-DNDEBUG): the collision assert in the fill loops is compiled out, exactly as in the shipped binary',
               'move_bitboards::init() calls the init_* functions in the order rays, masks, magics (checked: the composition harness calls them in that order)']
NOT_COVERED = []

TUS = tu('move_bitboards.cpp', 'types.cpp', 'bithacks.cpp')
CANARY = '\n#ifdef CANARY\n  __CPROVER_assert(0, "CANARY: must fail (reachability of the point after the call)");\n#endif\n'
ND = 'uint32_t nondet_u32(void); uint64_t nondet_u64(void); int nondet_int(void);\n'

DIRS = {'8': (0, 1), '1': (1, 0), 'm8': (0, -1), 'm1': (-1, 0), '9': (1, 1), '7': (-1, 1), 'm7': (1, -1), 'm9': (-1, -1),
        '16': (0, 2), 'm16': (0, -2)}


def loops_unwind(pairs):
    """unwindset chosen from `cbmc --show-loops` after instrumentation: [(function-name substring, bound)]."""
    import subprocess
    def f(target):
        out = subprocess.run(['cbmc', '--show-loops', target], capture_output=True, text=True).stdout
        ids = re.findall(r'Loop ([^\s:]+):', out)
        res = []
        for lid in ids:
            for sub, n in pairs:
                if sub in lid:
                    res.append('%s:%d' % (lid, n))
                    break
        return res
    return f


def project_table(text, table, gcell):
    """one-cell projection: TABLE[a][b] -> (*verif_cell_TABLE(a, b))"""
    out = []
    i = 0
    pat = table + '['
    decl = 'uint64_t %s[64][4096];' % table
    text = text.replace(decl, 'uint64_t nondet_u64(void);\nuint64_t %s; uint64_t %s_sink;\nuint64_t *verif_cell_%s(uint32_t a, uint64_t b) { if (a == G_SQ && b == G_KEY) return &%s; %s_sink = nondet_u64(); return &%s_sink; }'
                        % (gcell, gcell, table, gcell, gcell, gcell))
    while True:
        j = text.find(pat, i)
        if j < 0:
            out.append(text[i:])
            break
        out.append(text[i:j])
        k = j + len(pat)
        def match(k):
            d = 1
            s = k
            while d:
                ch = text[k]
                if ch == '[':
                    d += 1
                elif ch == ']':
                    d -= 1
                k += 1
            return text[s:k - 1], k
        a, k = match(k)
        assert text[k] == '[', 'projection: second index expected'
        b, k = match(k + 1)
        out.append('(*verif_cell_%s(%s, %s))' % (table, a, b))
        i = k
    return ''.join(out)


# Labelled exhaustive stand-in (never counted as proved): the real move_bitboards::init() followed by the real slider_attack<> for every square
# and every subset of the relevant-occupancy mask (plus random full occupancies), compared with the ray walk of spec/geom.h.  It exists for the case
# in which a refactoring of the fill loops makes the loop contracts inapplicable (CONTRACT-DRIFT = undecided): a wrong table entry is then still
# reported with a concrete failing (square, occupancy).
TABLE_STANDIN = r"""
#define _Bool bool
#include <cstdio>
#include <cstdint>
#include "types.h"
#include "bitboard.h"
#include "move_bitboards.h"
#include "geom.h"
using namespace engine;
static uint64_t rook_mask(uint32_t s) { uint64_t m = 0; int f = s & 7, r = s >> 3;
  for (int i = f + 1; i < 7; i++) m |= 1ULL << (r * 8 + i); for (int i = f - 1; i > 0; i--) m |= 1ULL << (r * 8 + i);
  for (int i = r + 1; i < 7; i++) m |= 1ULL << (i * 8 + f); for (int i = r - 1; i > 0; i--) m |= 1ULL << (i * 8 + f); return m; }
static uint64_t bishop_mask(uint32_t s) { uint64_t m = 0; int f = s & 7, r = s >> 3;
  for (int d = 1; f + d < 7 && r + d < 7; d++) m |= 1ULL << ((r + d) * 8 + f + d); for (int d = 1; f - d > 0 && r + d < 7; d++) m |= 1ULL << ((r + d) * 8 + f - d);
  for (int d = 1; f + d < 7 && r - d > 0; d++) m |= 1ULL << ((r - d) * 8 + f + d); for (int d = 1; f - d > 0 && r - d > 0; d++) m |= 1ULL << ((r - d) * 8 + f - d); return m; }
int main() {
  move_bitboards::init();
  long n = 0, bad = 0; uint64_t x = 0x9E3779B97F4A7C15ULL;
  for (uint32_t s = 0; s < 64; s++) for (int piece = 0; piece < 2; piece++) {
    uint64_t mask = piece ? rook_mask(s) : bishop_mask(s), sub = 0;
    do {                                                       // every subset of the relevant squares (carry-rippler), empty and full included
      for (int noise = 0; noise < 2; noise++) {                // and the same subset with arbitrary irrelevant squares occupied
        x ^= x << 13; x ^= x >> 7; x ^= x << 17;
        uint64_t occ = sub | (noise ? (x & ~mask) : 0);
        uint64_t got = piece ? slider_attack<ROOK>(Square(s), occ) : slider_attack<BISHOP>(Square(s), occ);
        uint64_t want = piece ? spec_rook_walk(s, occ) : spec_bishop_walk(s, occ);
        n++;
        if (got != want) { if (bad < 10) printf("CONFIRMED %s on %c%c, occupancy %016llx: engine %016llx, ray walk %016llx\n", piece ? "rook" : "bishop", 'a' + (s & 7), '1' + (s >> 3),
                                                 (unsigned long long)occ, (unsigned long long)got, (unsigned long long)want); bad++; }
      }
      sub = (sub - mask) & mask;
    } while (sub);
  }
  printf("compared %ld (square, occupancy) pairs: every subset of every relevant-occupancy mask, with and without irrelevant occupied squares; mismatches %ld\n", n, bad);
  return bad ? 1 : 0;
}
"""


def jobs(tier, seed):
    out = []
    # ------------------------------------------------------------------ geometry tables by symbolic execution of the real init
    h = ND + '''
void h_geom(void) {
  init_rays(); init_knight_mask(); init_bishop_mask(); init_rook_mask(); init_king_mask(); init_castling_paths_bitboards();
  uint32_t d = nondet_u32(), s = nondet_u32();
  __CPROVER_assume(d < 8 && s < 64);
  __CPROVER_assert(RAYS[d][s] == spec_ray((int)d, s), "RAYS[dir][sq] == squares beyond sq in that direction");
  __CPROVER_assert(KNIGHT_MASK[s] == spec_knight(s), "KNIGHT_MASK[sq] == knight moves");
  __CPROVER_assert(KING_MASK[s] == spec_king(s), "KING_MASK[sq] == king moves");
  __CPROVER_assert(ROOK_MASK[s] == spec_rook_mask(s), "ROOK_MASK[sq] == inner rook ray squares");
  __CPROVER_assert(BISHOP_MASK[s] == spec_bishop_mask(s), "BISHOP_MASK[sq] == inner bishop ray squares");
  __CPROVER_assert(CASTLING_PATHS[1] == (SPEC_BIT(5) | SPEC_BIT(6)) && CASTLING_PATHS[2] == (SPEC_BIT(2) | SPEC_BIT(3)) &&
                   CASTLING_PATHS[4] == (SPEC_BIT(61) | SPEC_BIT(62)) && CASTLING_PATHS[8] == (SPEC_BIT(58) | SPEC_BIT(59)),
                   "CASTLING_PATHS == the two squares the king crosses / lands on");
''' + CANARY + '}\n'
    out.append(Job('geom/rays_masks', TUS, ['init_rays', 'init_knight_mask', 'init_bishop_mask', 'init_rook_mask', 'init_king_mask',
                                            'init_castling_paths_bitboards'], h, 'h_geom', spec=['geom.h'], timeout=900,
                   route='closed init code executed symbolically (complete)', note='all 8x64 + 4x64 + 4 entries via symbolic index'))
    h = ND + '''
void h_lines(void) {
  init_lines_bitboards();
  uint32_t s = nondet_u32(), t = nondet_u32();
  __CPROVER_assume(s < 64 && t < 64);
  __CPROVER_assert(LINES[s][t] == spec_segment(s, t), "LINES[a][b] == closed segment a..b if aligned, {a} if a == b, else empty");
''' + CANARY + '}\n'
    out.append(Job('geom/lines', TUS, ['init_lines_bitboards'], h, 'h_lines', spec=['geom.h'], timeout=1500,
                   route='closed init code executed symbolically (complete)', note='all 64x64 entries via symbolic index'))
    h = ND + '''
void h_flines(void) {
  init_full_lines_bitboards();
  uint32_t s = nondet_u32(), t = nondet_u32();
  __CPROVER_assume(s < 64 && t < 64);
  __CPROVER_assert(FULL_LINES[s][t] == spec_full_line(s, t), "FULL_LINES[a][b] == whole line through a and b if aligned and a != b, else empty");
''' + CANARY + '}\n'
    out.append(Job('geom/full_lines', TUS, ['init_full_lines_bitboards'], h, 'h_flines', spec=['geom.h'], timeout=1500,
                   route='closed init code executed symbolically (complete)', note='all 64x64 entries via symbolic index'))
    # ------------------------------------------------------------------ shifts and pawn/king attack sets, point-wise in a ghost square
    ghost = 'uint32_t G_SQ;\n'
    BB = tu('types.cpp', 'bithacks.cpp', 'move_bitboards.cpp')
    cs = {}
    for suf, (df, dr) in DIRS.items():
        cs['shift_' + suf] = ('__CPROVER_requires(G_SQ < 64)\n__CPROVER_assigns()\n'
                              '__CPROVER_ensures(((__CPROVER_return_value >> G_SQ) & 1) == spec_shift_bit(bb, G_SQ, %d, %d))\n' % (df, dr))
    for fn in cs:
        h = ND + 'void h_shift(void) { uint64_t b = nondet_u64(); G_SQ = nondet_u32();\n  %s(b);\n' % fn + CANARY + '}\n'
        out.append(Job('shift/' + fn, BB, [fn], h, 'h_shift', contracts={fn: cs[fn]}, enforce=fn, spec=['geom.h'], pre_text=ghost,
                       timeout=600, note='shift<dir>(bb): bit t set iff the source square exists on the board and is set; all 2^64 bitboards'))
    c_sh = ('__CPROVER_requires(G_SQ < 64 && (dir == 8 || dir == 1 || dir == -8 || dir == -1 || dir == 9 || dir == 7 || dir == -7 || dir == -9 || dir == 16 || dir == -16))\n'
            '__CPROVER_assigns()\n__CPROVER_ensures(((__CPROVER_return_value >> G_SQ) & 1) == spec_shift_bit(bb, G_SQ, '
            '(dir == 1 || dir == 9 || dir == -7) ? 1 : ((dir == -1 || dir == 7 || dir == -9) ? -1 : 0), '
            '(dir == 8 || dir == 9 || dir == 7) ? 1 : ((dir == -8 || dir == -9 || dir == -7) ? -1 : (dir == 16 ? 2 : (dir == -16 ? -2 : 0)))))\n')
    c_pa0 = ('__CPROVER_requires(G_SQ < 64)\n__CPROVER_assigns()\n__CPROVER_ensures(((__CPROVER_return_value >> G_SQ) & 1) == '
             '(spec_shift_bit(bb, G_SQ, 1, 1) || spec_shift_bit(bb, G_SQ, -1, 1)))\n')
    c_pa1 = ('__CPROVER_requires(G_SQ < 64)\n__CPROVER_assigns()\n__CPROVER_ensures(((__CPROVER_return_value >> G_SQ) & 1) == '
             '(spec_shift_bit(bb, G_SQ, 1, -1) || spec_shift_bit(bb, G_SQ, -1, -1)))\n')
    c_pa = ('__CPROVER_requires(G_SQ < 64 && side <= 1)\n__CPROVER_assigns()\n__CPROVER_ensures(((__CPROVER_return_value >> G_SQ) & 1) == '
            '(spec_shift_bit(bb, G_SQ, 1, side == 0 ? 1 : -1) || spec_shift_bit(bb, G_SQ, -1, side == 0 ? 1 : -1)))\n')
    c_ka = ('__CPROVER_requires(G_SQ < 64)\n__CPROVER_assigns()\n__CPROVER_ensures(((__CPROVER_return_value >> G_SQ) & 1) == '
            '(spec_shift_bit(bb, G_SQ, 1, 1) || spec_shift_bit(bb, G_SQ, 1, 0) || spec_shift_bit(bb, G_SQ, 1, -1) || spec_shift_bit(bb, G_SQ, 0, 1) || '
            'spec_shift_bit(bb, G_SQ, 0, -1) || spec_shift_bit(bb, G_SQ, -1, 1) || spec_shift_bit(bb, G_SQ, -1, 0) || spec_shift_bit(bb, G_SQ, -1, -1)))\n')
    cs2 = {'shift': c_sh, 'pawn_attacks_0': c_pa0, 'pawn_attacks_1': c_pa1, 'pawn_attacks': c_pa, 'king_attacks': c_ka}
    calls2 = {'shift': 'shift(b, d)', 'pawn_attacks_0': 'pawn_attacks_0(b)', 'pawn_attacks_1': 'pawn_attacks_1(b)', 'pawn_attacks': 'pawn_attacks(b, c)', 'king_attacks': 'king_attacks(b)'}
    for fn in cs2:
        h = ND + ('void h_att(void) { uint64_t b = nondet_u64(); G_SQ = nondet_u32(); int d = nondet_int(); uint32_t c = nondet_u32();\n'
                  '  %s;\n' % calls2[fn] + CANARY + '}\n')
        out.append(Job('attacks/' + fn, tu('position.cpp', 'types.cpp', 'bithacks.cpp'), [fn], h, 'h_att', contracts={fn: cs2[fn]},
                       enforce=fn, spec=['geom.h'], pre_text=ghost, timeout=600,
                       note='pawn/king attack sets of arbitrary bitboards, point-wise; shift(bb, dir) dispatcher'))
    # ------------------------------------------------------------------ magic look-up
    c_gbi = ('__CPROVER_requires(index >= 0 && index < 4096 && __builtin_popcountll(mask) <= 12)\n__CPROVER_assigns()\n'
             '__CPROVER_ensures(__CPROVER_return_value == spec_pdep((uint32_t)index, mask))\n')
    h = ND + 'void h_gbi(void) { int i = nondet_int(); uint64_t m = nondet_u64(); get_blockers_from_index(i, m);' + CANARY + '}\n'
    out.append(Job('magic/get_blockers_from_index', TUS, ['get_blockers_from_index'], h, 'h_gbi', contracts={'get_blockers_from_index': c_gbi},
                   enforce='get_blockers_from_index', spec=['geom.h'], unwindset=loops_unwind([('get_blockers_from_index', 13)]),
                   route='closed-by-complete-unwinding(13): popcount(mask) <= 12 is the structural bound of the relevant-occupancy masks',
                   timeout=900, backend='cadical', note='index-th subset of the mask == bit deposit (MiniSat does not finish on this query; CaDiCaL: about a minute)'))
    RAYS_PRE = 'init_rays();'
    c_gra = '__CPROVER_requires(from < 64)\n__CPROVER_assigns()\n__CPROVER_ensures(__CPROVER_return_value == spec_rook_walk(from, blockers))\n'
    c_gba = '__CPROVER_requires(from < 64)\n__CPROVER_assigns()\n__CPROVER_ensures(__CPROVER_return_value == spec_bishop_walk(from, blockers))\n'
    for fn, cc in (('get_rook_attacks', c_gra), ('get_bishop_attacks', c_gba)):
        h = ND + 'void h_walk(void) { ' + RAYS_PRE + ' uint32_t s = nondet_u32(); uint64_t o = nondet_u64(); %s(s, o);' % fn + CANARY + '}\n'
        out.append(Job('magic/' + fn, TUS, [fn, 'init_rays'], h, 'h_walk', contracts={fn: cc}, enforce=fn,
                       spec=['geom.h'], timeout=900, note='classical ray attacks (lsb/msb of the masked ray) == ray walk, all squares and occupancies; RAYS from the real init_rays'))
    for kind, K, walk, attfn, sl in (('rook', 'ROOK', 'spec_rook_walk', 'get_rook_attacks', 'slider_attack_4'),
                                     ('bishop', 'BISHOP', 'spec_bishop_walk', 'get_bishop_attacks', 'slider_attack_3')):
        INIT = 'init_%s_magics' % kind
        ALL = '0xFFFFFFFFFFFFFFFFULL'
        cell = 'G_CELL'
        ghosts = 'uint32_t G_SQ; uint64_t G_OCC, G_KEY, G_MOV; uint32_t G_IDX;\n'
        c_init = ('__CPROVER_requires(G_SQ < 64 && (G_OCC & ~%s_MASK[G_SQ]) == 0)\n'
                  '__CPROVER_requires(%s_INDEX_BITS[G_SQ] >= 1 && %s_INDEX_BITS[G_SQ] <= 12 && G_KEY == ((G_OCC * %s_MAGICS[G_SQ]) >> (64 - %s_INDEX_BITS[G_SQ])) && G_KEY < 4096)\n'
                  '__CPROVER_requires(G_MOV == %s(G_SQ, G_OCC) && G_IDX == spec_pext(G_OCC, %s_MASK[G_SQ]))\n'
                  '__CPROVER_assigns(%s, %s_sink)\n__CPROVER_ensures(%s == G_MOV)\n' % (K, K, K, K, K, walk, K, cell, cell, cell))
        lc = {
            (INIT, 1): ['__CPROVER_assigns(sq, %s, %s_sink)' % (cell, cell), '__CPROVER_loop_invariant(sq <= 64)',
                        '__CPROVER_loop_invariant(sq > G_SQ ==> %s == G_MOV)' % cell, '__CPROVER_decreases(64 - sq)'],
            (INIT, 2): ['__CPROVER_assigns(i, %s, %s_sink)' % (cell, cell), '__CPROVER_loop_invariant(0 <= i && i <= 4096)',
                        '__CPROVER_loop_invariant((sq == G_SQ && (uint64_t)i > G_KEY) ==> %s == %s)' % (cell, ALL),
                        '__CPROVER_loop_invariant(sq != G_SQ ==> %s == __CPROVER_loop_entry(%s))' % (cell, cell), '__CPROVER_decreases(4096 - i)'],
            (INIT, 3): ['__CPROVER_assigns(index, %s, %s_sink)' % (cell, cell), '__CPROVER_loop_invariant(0 <= index && index <= num_blockers)',
                        '__CPROVER_loop_invariant(sq == G_SQ ==> (%s == %s || %s == G_MOV))' % (cell, ALL, cell),
                        '__CPROVER_loop_invariant((sq == G_SQ && (uint32_t)index > G_IDX) ==> %s == G_MOV)' % cell,
                        '__CPROVER_loop_invariant(sq != G_SQ ==> %s == __CPROVER_loop_entry(%s))' % (cell, cell),
                        '__CPROVER_decreases(num_blockers - index)'],
        }
        c_att = c_gra if kind == 'rook' else c_gba
        post = (lambda K: (lambda text: project_table(text, K + '_TABLE', 'G_CELL')))(K)
        h = ND + ('void h_magic(void) { verif_restore_statics(); init_rays(); init_%s_mask();\n'
                  '  G_SQ = nondet_u32(); G_OCC = nondet_u64(); G_KEY = nondet_u64(); G_MOV = nondet_u64(); G_IDX = nondet_u32();\n'
                  '  %s();\n' % (kind, INIT) + CANARY + '}\n')
        out.append(Job('magic/' + INIT, TUS, [INIT, 'init_rays', 'init_%s_mask' % kind], h, 'h_magic',
                       contracts={INIT: c_init, 'get_blockers_from_index': c_gbi, attfn: c_att}, loopc=lc,
                       enforce=INIT, replace=['get_blockers_from_index', attfn], loop_contracts=True, spec=['geom.h'],
                       pre_text=ghosts, post=post, timeout=2400, route='loop contracts (3 nested fill loops), unbounded',
                       expect=['loop_invariant_step', 'loop_invariant_base'],
                       note='after the real fill loops the tracked cell TABLE[G_SQ][key(G_OCC)] holds the ray walk of (G_SQ, G_OCC), for every square and every subset of the mask; a colliding magic breaks loop_invariant_step of the index loop'))
        # look-up under contract, composed with the init contract
        c_sl = ('__CPROVER_requires(sq < 64 && sq == G_SQ && (blockers & %s_MASK[sq]) == G_OCC && %s_INDEX_BITS[sq] >= 1 && %s_INDEX_BITS[sq] <= 12)\n'
                '__CPROVER_requires(G_KEY == ((G_OCC * %s_MAGICS[sq]) >> (64 - %s_INDEX_BITS[sq])) && G_CELL == %s(sq, G_OCC) && %s_MASK[sq] == spec_%s_mask(sq))\n'
                '__CPROVER_assigns(G_CELL_sink)\n__CPROVER_ensures(__CPROVER_return_value == %s(sq, blockers))\n' % (K, K, K, K, K, walk, K, kind, walk))
        h = ND + ('void h_slider(void) { verif_restore_statics(); init_rays(); init_%s_mask();\n'
                  '  uint32_t s = nondet_u32(); uint64_t o = nondet_u64(); __CPROVER_assume(s < 64);\n'
                  '  G_SQ = s; G_OCC = o & %s_MASK[s]; G_KEY = (G_OCC * %s_MAGICS[s]) >> (64 - %s_INDEX_BITS[s]);\n'
                  '  G_MOV = %s(G_SQ, G_OCC); G_IDX = spec_pext(G_OCC, %s_MASK[G_SQ]);\n'
                  '  %s();            /* by contract: leaves the tracked cell == ray walk of (G_SQ, G_OCC) */\n'
                  '  uint64_t r = %s(s, o);   /* under contract */\n'
                  '  __CPROVER_assert(r == %s(s, o), "slider look-up == ray walk for every square and every 64-bit occupancy");\n'
                  % (kind, K, K, K, walk, K, INIT, sl, walk) + CANARY + '}\n')
        out.append(Job('magic/' + sl, TUS, [INIT, sl, 'init_rays', 'init_%s_mask' % kind], h, 'h_slider',
                       contracts={INIT: c_init, sl: c_sl}, nobody=[INIT], enforce=sl, replace=[INIT], spec=['geom.h'],
                       pre_text=ghosts, post=post, timeout=1800,
                       note='slider_attack<%s>(sq, occ) == ray walk: table cell by the init contract (its preconditions are checked here), edge squares irrelevant' % K))
    # queen = bishop | rook, over the two look-up contracts in their consumer form
    c3 = '__CPROVER_requires(sq < 64)\n__CPROVER_assigns()\n__CPROVER_ensures(__CPROVER_return_value == spec_bishop_walk(sq, blockers))\n'
    c4 = '__CPROVER_requires(sq < 64)\n__CPROVER_assigns()\n__CPROVER_ensures(__CPROVER_return_value == spec_rook_walk(sq, blockers))\n'
    c5 = '__CPROVER_requires(sq < 64)\n__CPROVER_assigns()\n__CPROVER_ensures(__CPROVER_return_value == spec_queen_walk(sq, blockers))\n'
    h = ND + 'void h_queen(void) { uint32_t s = nondet_u32(); uint64_t o = nondet_u64(); slider_attack_5(s, o);' + CANARY + '}\n'
    out.append(Job('magic/slider_attack_5', TUS, ['slider_attack_5'], h, 'h_queen', contracts={'slider_attack_3': c3, 'slider_attack_4': c4, 'slider_attack_5': c5},
                   nobody=['slider_attack_3', 'slider_attack_4'], enforce='slider_attack_5', replace=['slider_attack_3', 'slider_attack_4'],
                   spec=['geom.h'], timeout=600, note='queen look-up == union of the two walks (bishop/rook look-ups by contract)'))
    out.append(NativeJob('magic/tables_exhaustive', TABLE_STANDIN, 'exhaustive-native stand-in: real init() + slider_attack<> for all 64 squares x all subsets of the relevant mask (x2 with irrelevant squares occupied)', spec=['geom.h'],
                         timeout=600, note='real move_bitboards::init() and slider_attack<BISHOP|ROOK> versus the ray walk, every table entry'))
    return out
