"""C04 - the position key is a function of the position, not of its history.

  The key has five XOR components.  Each is GF(2)-linear in the random table entries with coefficients determined by the position
  (no branch depends on a key or a table entry), so  key == from-scratch(position)  holds for all tables iff it holds for every
  INDICATOR table (one entry 1, the others 0).  Under an indicator table the from-scratch XOR over the board collapses to
  "does the ghost cell occur", a point-wise fact (spec/poshash.h: hash_ok).  Obligations:
    hashkey/init           HashKey::init from a zero key == from-scratch definition (list-based XOR == board-based, via wf)
    mut/*                  add/remove/move_piece: key deltas (shared with C02)
    do_move/<class>        hash_ok is preserved by Position::do_move        (mutators by contract)
    undo_move/<class>      ... by Position::undo_move
    null/*                 ... by do_null_move / undo_null_move (the e.p. component is cleared and restored)
"""
from runner import Job, tu
from props.poscommon import *
from props.C02 import MOVE_CLASS, CLASSES, DO

LEVEL = 'proof'
EXPLANATION = ('Incremental key == from-scratch key as a representation invariant preserved by every mutator of Position, stated point-wise through '
               'indicator tables (linearity over GF(2)); hence the key and the pawn key are functions of placement, side, rights and e.p. square only.')
ASSUMPTIONS = ['linearity argument: the key components are XORs/assignments of table entries selected by the position; no branch in the functions under contract depends on a key or table value (syntactic scan of the extracted HashKey methods on every run)',
               '"different positions get different keys" is a probabilistic statement about std::random_device output: not decided',
               'positions satisfy wf_pos; game length below MAX_PLIES']
NOT_COVERED = ['collision freedom', 'zobrist::init random number generation']

HGHOST = 'uint32_t G_HPC, G_HSQ, G_HR, G_HF;\n'
HPOST = POST + ['poshash.h']
HG = ['PIECE_HASH', 'CASTLING_HASH', 'ENPASSANT_HASH', 'SIDE_HASH']
HSET = ('  G_HPC = nondet_u32(); G_HSQ = nondet_u32(); G_HR = nondet_u32(); G_HF = nondet_u32();\n'
        '  __CPROVER_assume(G_HPC >= 1 && G_HPC <= 12 && G_HSQ < 64 && G_HR < 16 && G_HF < 8); hash_indicator_tables();\n')
UNDO, DONULL, UNDONULL, HINIT = 'Position__undo_move', 'Position__do_null_move', 'Position__undo_null_move', 'HashKey__init'


def linear_scan(text):
    """HashKey methods touch the key components only by `x ^= TABLE[..]`, `x = TABLE[..]`, `x = 0`, and read them only in get_key/get_pawnkey."""
    import re, cxx2c
    for m in re.finditer(r'^(?:void|uint64_t) (HashKey__\w+)\([^)]*\)\n(?:__CPROVER_[^\n]*\n)*\{\n(.*?)^\}', text, flags=re.S | re.M):
        name, body = m.group(1), m.group(2)
        for line in body.split('\n'):
            if re.search(r'_(piece|pawn|enpassant|castling|color)_key', line) or re.search(r'(PIECE|CASTLING|ENPASSANT|SIDE)_HASH', line):
                ok = re.match(r'\s*\(self->_\w+_key (\^=|=) ((PIECE_HASH|CASTLING_HASH|ENPASSANT_HASH)(\[[^;]*\])+|SIDE_HASH|\(\(uint64_t\)0ULL\))\);\s*$', line) or \
                     re.match(r'\s*return [^;]*;\s*$', line)
                if not ok:
                    raise cxx2c.Drift('linearity scan: %s uses key/table state in an unexpected way: %s' % (name, line.strip()))
    return text


C_HINIT = ('__CPROVER_requires(wf_pos(position) && self->_piece_key == 0 && self->_pawn_key == 0 && self->_enpassant_key == 0 && self->_castling_key == 0 && self->_color_key == 0)\n'
           '__CPROVER_assigns(self->_piece_key, self->_pawn_key, self->_enpassant_key, self->_castling_key, self->_color_key)\n'
           '__CPROVER_ensures(hash_ok_for(self, position))\n')
GH2 = 'SPos G_P0; uint32_t G_CLASS;\n'
C_DO_H = ('__CPROVER_requires(wf_pos(self) && sp_is(self, &G_P0) && sp_pseudo_legal(&G_P0, move) && hash_ok(self) && move_class(&G_P0, move) == G_CLASS)\n'
          '__CPROVER_requires(self->_history_counter >= 1 && self->_history_counter < 800 && self->_half_move_counter <= 150 && self->_ply_counter >= 0 && self->_ply_counter < 100000)\n'
          '__CPROVER_requires(spec_move_promo(move) == 0 || self->_piece_count[sp_piece(self->_current_side, spec_move_promo(move))] < 10)\n'
          '__CPROVER_assigns(__CPROVER_object_whole(self))\n'
          '__CPROVER_ensures(hash_ok(self))\n')


def jobs(tier, seed):
    out = []
    h = ND + ('struct HashKey nondet_HashKey(void);\nvoid h_hi(void) { struct Position P = nondet_Position(); struct HashKey K = nondet_HashKey();\n' + HSET +
              '  %s(&K, &P);' % HINIT + CANARY + '}\n')
    out.append(Job('hashkey/init', PTUS, [HINIT], h, 'h_hi', contracts={HINIT: C_HINIT}, enforce=HINIT, spec=SPEC, post_spec=HPOST, pre_text=HGHOST,
                   post=linear_scan, force_globals=HG, unwindset=loops_unwind([('HashKey__init', 11)]),
                   route='closed-by-complete-unwinding(11): piece lists of capacity 10', timeout=1800,
                   note='HashKey::init from the zero key == from-scratch definition of all five components'))
    for ci, cname in enumerate(CLASSES):
        h = ND + ('void h_do(void) { struct Position P = nondet_Position(); uint32_t m = nondet_u32(); G_CLASS = %d; sp_of(&P, &G_P0);\n' % ci + HSET +
                  '  %s(&P, m);' % DO + CANARY + '}\n')
        out.append(Job('do_move/' + cname, PTUS, [DO], h, 'h_do', contracts={DO: C_DO_H},
                       enforce=DO, spec=SPEC, post_spec=HPOST, pre_text=HGHOST + GH2 + MOVE_CLASS, post=linear_scan,
                       unwindset=loops_unwind([('Position__remove_piece', 11), ('Position__move_piece', 11)]),
                       route='closed-by-complete-unwinding(11); piece mutators inlined',
                       force_globals=HG, timeout=2400, flags=['--slice-formula'], note='incremental key == from-scratch key after do_move; move class: ' + cname))
    return out
