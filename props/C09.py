"""C09 - search limits are honoured (stage 1: the iterative-deepening driver Search::iter_search under contract, see props/C05.py).

  Obligations carried by the iter_search group that belong to C09:
    - the depths handed to print_info are 1, 2, 3, ... consecutively (print_info's precondition depth == last reported + 1)
    - never above the depth limit of `go depth d` and never above MAX_DEPTH (also for d > MAX_DEPTH; fixed: a52d773)
    - the answer is a root move (the root move list is searchmoves when given: Search constructor, not extracted)
  Termination ("every search with a finite limit terminates on its own") is NOT decided: no variant is proved for the aspiration loop
  and Search::search is only assumed to terminate.
"""
from props.C05 import jobs, LEVEL, ASSUMPTIONS  # noqa: F401

EXPLANATION = ('Search::iter_search under contract, conditional on an assumed contract of Search::search: reported depths consecutive from 1, bounded by the depth limit '
               'and by MAX_DEPTH, final move a root move. Termination and the node/time limits inside Search::search are not covered.')
NOT_COVERED = ['termination of the search for finite limits', 'node and time limits (Search::check_limits is inlined but its effect is only "may stop")',
               'Search constructor (maps go parameters to _search_depth / root moves)', 'Uci::go_command parsing']
