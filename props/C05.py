"""C05 / C09 / C10 (search driver, stage 1) - Search::iter_search under contract.

  The iterative-deepening driver is checked with Search::search BY AN ASSUMED CONTRACT that is deliberately weak: a call may raise
  stop_search at any time (this one clause models every arrival time of `stop` and every expiring budget, including "before depth 1
  completes"), returns a finite score, and - only when it returns un-stopped inside the window - leaves a principal variation whose
  first move is a root move.  print_info is a stub whose contract records the reported depth (ghost g_last_depth).
  Obligations on iter_search:
    C05  the move left in _best_move (what `go` prints) is a root move, whatever the stop timing
    C09  reported depths are 1, 2, ... consecutive, never above the depth limit, never above MAX_DEPTH
    C10  previous_moves[_current_depth] and the search stack stay in bounds for every _search_depth
"""
from runner import Job, tu
from props.C11 import loops_unwind

LEVEL = 'other'
EXPLANATION = ('Proof of the iterative-deepening driver Search::iter_search conditional on an assumed (undischarged) contract of Search::search; '
               'the search bodies, the UCI front end, threads and wall-clock behaviour are not covered.')
ASSUMPTIONS = ['UNDISCHARGED: the contract assumed for Search::search (finite return value; if it returns un-stopped strictly inside the window the PV is non-empty and starts with a root move; may set stop_search at any call; touches only the search stack, statistics and stop/limit counters)',
               'Search::search terminates; the aspiration re-search loop terminates (no variant proved)',
               'the Search constructor sets _search_depth from limits.depth (or MAX_DEPTH / 7) and the root move list from generate_moves or searchmoves: not extracted (std::vector, references)',
               'clock readings are arbitrary non-negative values (std::chrono bound to verif_elapsed_ms)',
               'single-threaded: `stop` from another thread is modelled only by the search contract raising stop_search']
NOT_COVERED = ['Search::search / quiescence_search bodies', 'Uci::go_command parsing, searchmoves buffer', 'thread interaction (C06)', 'printing of the bestmove line in Search::go (iostream)']

TUS = tu('search.cpp', 'types.cpp')
ITER, SEARCH, PRINT = 'Search__iter_search', 'Search__search', 'Search__print_info'
CANARY = '\n#ifdef CANARY\n  __CPROVER_assert(0, "CANARY: must fail (reachability of the point after the call)");\n#endif\n'
# the root move set as a ghost characteristic array over the 2^17 move encodings (array reads are allowed in loop invariants, calls are not)
GH = ('int g_last_depth; _Bool G_ISROOT[131072];\n#define verif_is_root(m) (((m) >> 17) == 0 && G_ISROOT[(m) & 0x1ffffu])\n')
HOOKS = {'drop_fields': ('_counter_move_table', '_history_score', '_move_orderer', '_scorer')}
VINF = '640001'
C_SEARCH = ('__CPROVER_requires(depth >= 1 && depth <= 40)\n'
            '__CPROVER_assigns(self->stop_search, self->check_limits_counter, self->_stats, __CPROVER_object_whole(self->_stack_info))\n'
            '__CPROVER_ensures(-%s < __CPROVER_return_value && __CPROVER_return_value < %s)\n' % (VINF, VINF) +
            '__CPROVER_ensures((!self->stop_search && alpha < __CPROVER_return_value && __CPROVER_return_value < beta) ==> (info->_pv_list_length >= 1 && info->_pv_list_length <= 80 && verif_is_root(info->_pv_list[0])))\n')
C_PRINT = ('__CPROVER_requires(depth == g_last_depth + 1 && depth <= 40 && (self->limits.depth == 0 || depth <= self->limits.depth) && info->_pv_list_length >= 1)\n'
           '__CPROVER_assigns(g_last_depth)\n__CPROVER_ensures(g_last_depth == depth)\n')
C_ITER = ('__CPROVER_requires(g_last_depth == 0 && !self->stop_search && !G_ISROOT[0])\n'
          '__CPROVER_requires(self->limits.depth == 0 || self->_search_depth == self->limits.depth)\n'
          '__CPROVER_assigns(self->_best_move, self->_current_depth, self->_stats, self->stop_search, self->check_limits_counter, __CPROVER_object_whole(self->_stack_info), g_last_depth)\n'
          '__CPROVER_ensures(verif_is_root(self->_best_move))\n'
          '__CPROVER_ensures(g_last_depth <= 40 && (self->limits.depth == 0 || g_last_depth <= self->limits.depth))\n')
LC = {
    (ITER, 1): ['__CPROVER_assigns(self->_best_move, self->_current_depth, self->_stats, self->stop_search, self->check_limits_counter, __CPROVER_object_whole(self->_stack_info), g_last_depth, '
                'previous_score, __CPROVER_object_whole(previous_moves), min_bound, max_bound, elapsed)',
                '__CPROVER_loop_invariant(0 <= self->_current_depth && self->_current_depth <= 40 && 0 <= g_last_depth && g_last_depth <= self->_current_depth)',
                '__CPROVER_loop_invariant(!self->stop_search ==> g_last_depth == self->_current_depth)',
                '__CPROVER_loop_invariant(g_last_depth >= 1 ==> verif_is_root(self->_best_move))',
                '__CPROVER_loop_invariant(self->limits.depth == 0 || g_last_depth <= self->limits.depth)'],
    (ITER, 2): ['__CPROVER_assigns(result, min_bound, max_bound, delta, self->stop_search, self->check_limits_counter, self->_stats, __CPROVER_object_whole(self->_stack_info))',
                '__CPROVER_loop_invariant(1 <= self->_current_depth && self->_current_depth <= 40)'],
}


def jobs(tier, seed):
    h = ('struct Search nondet_Search(void);\nvoid h_it(void) { struct Search S = nondet_Search(); %s(&S);' % ITER + CANARY + '}\n')
    j = Job('iter_search', TUS, [ITER], h, 'h_it', contracts={ITER: C_ITER, SEARCH: C_SEARCH, PRINT: C_PRINT}, nobody=[SEARCH, PRINT], loopc=LC, enforce=ITER,
            replace=[SEARCH, PRINT], loop_contracts=True, hooks=HOOKS, pre_text=GH, timeout=2400, expect=['loop_invariant_step'],
            unwindset=loops_unwind([('compute_search_delta', 42)]),
            route='loop contracts on the iterative-deepening loop and the aspiration loop (partial correctness; termination assumed)',
            note='iter_search: best move is a root move for every stop timing; reported depths consecutive and within the limit; per-depth array and stack indices in bounds')
    return [j]
