"""C05 / C09 / C10 (search driver, stage 1) - Search::iter_search under contract.

  The iterative-deepening driver is checked with Search::search BY AN ASSUMED CONTRACT that is deliberately weak: a call may raise
  stop_search at any time (this one clause models every arrival time of `stop` and every expiring budget, including "before depth 1
  completes"), returns a finite score, and - only when it returns un-stopped inside the window - leaves a principal variation whose
  first move is a root move.  print_info is a stub whose contract records the reported depth (ghost g_last_depth).
  Obligations on iter_search:
    C05  the move left in _best_move (what `go` prints) is a root move, whatever the stop timing
    C09  reported depths are 1, 2, ... consecutive, never above the depth limit, never above MAX_DEPTH
    C10  previous_moves[_current_depth] and the search stack stay in bounds for every _search_depth
"""
from runner import Job, tu
from props.C11 import loops_unwind

LEVEL = 'other'
EXPLANATION = ('Proof of the iterative-deepening driver Search::iter_search conditional on an assumed (undischarged) contract of Search::search; '
               'the search bodies, the UCI front end, threads and wall-clock behaviour are not covered.')
ASSUMPTIONS = ['UNDISCHARGED: the contract assumed for Search::search (finite return value; if it returns un-stopped strictly inside the window the PV is non-empty and starts with a root move; may set stop_search at any call; touches only the search stack, statistics and stop/limit counters)',
               'Search::search terminates; the aspiration re-search loop terminates (no variant proved)',
               'the Search constructor sets _search_depth from limits.depth (or MAX_DEPTH / 7) and the root move list from generate_moves or searchmoves: not extracted (std::vector, references)',
               'clock readings are arbitrary non-negative values (std::chrono bound to verif_elapsed_ms)',
               'single-threaded: `stop` from another thread is modelled only by the search contract raising stop_search']
NOT_COVERED = ['Search::search / quiescence_search bodies', 'Uci::go_command parsing, searchmoves buffer', 'thread interaction (C06)', 'printing of the bestmove line in Search::go (iostream)']

TUS = tu('search.cpp', 'types.cpp')
ITER, SEARCH, PRINT = 'Search__iter_search', 'Search__search', 'Search__print_info'
CANARY = '\n#ifdef CANARY\n  __CPROVER_assert(0, "CANARY: must fail (reachability of the point after the call)");\n#endif\n'
# the root move set through a ghost: G_BAD is an arbitrary move encoding that is NOT a root move (NO_MOVE is one such value); the assumed search
# contract says the PV never starts with it, the obligation is that the best move is never it - for every such G_BAD, i.e. the best move is a root move
GH = ('int g_last_depth; uint32_t G_BAD;\n#define verif_is_root(m) ((m) != G_BAD)\n')
HOOKS = {'drop_fields': ('_counter_move_table', '_history_score', '_move_orderer', '_scorer'), 'vector_view_fields': ('_root_moves',)}
VINF = '640001'
# the whole search stack as one (array-typed) assigns target
STK = 'self->_stack_info'
CNT = 'self->check_limits_counter >= 0 && self->check_limits_counter <= 40960'
C_SEARCH = ('__CPROVER_requires(depth >= 1 && depth <= 40 && %s)\n' % CNT +
            '__CPROVER_assigns(self->stop_search, self->check_limits_counter, self->_stats, ' + STK + ')\n'
            '__CPROVER_ensures(-%s < __CPROVER_return_value && __CPROVER_return_value < %s && %s)\n' % (VINF, VINF, CNT) +
            '__CPROVER_ensures((!self->stop_search && alpha < __CPROVER_return_value && __CPROVER_return_value < beta) ==> (info->_pv_list_length >= 1 && info->_pv_list_length <= 80 && verif_is_root(info->_pv_list[0])))\n')
C_PRINT = ('__CPROVER_requires(depth == g_last_depth + 1 && depth <= 40 && (self->limits.depth == 0 || depth <= self->limits.depth) && info->_pv_list_length >= 1)\n'
           '__CPROVER_assigns(g_last_depth)\n__CPROVER_ensures(g_last_depth == depth)\n')
C_ITER = ('__CPROVER_requires(g_last_depth == 0 && %s)\n' % CNT +
          '__CPROVER_requires(self->limits.depth >= 0 && (self->limits.depth == 0 || self->_search_depth == self->limits.depth))\n'
          '__CPROVER_requires(-(1LL << 40) < self->_search_time && self->_search_time < (1LL << 40))\n'
          '__CPROVER_requires(self->_root_moves__size >= 1 && __CPROVER_r_ok(self->_root_moves__data, 4 * self->_root_moves__size) && verif_is_root(self->_root_moves__data[0]))\n'
          '__CPROVER_assigns(self->_best_move, self->_current_depth, self->_stats, self->stop_search, self->check_limits_counter, ' + STK + ', g_last_depth)\n'
          '__CPROVER_ensures(verif_is_root(self->_best_move))\n'
          '__CPROVER_ensures(0 <= g_last_depth && g_last_depth <= 40 && (self->limits.depth == 0 || g_last_depth <= self->limits.depth))\n')
LC = {
    (ITER, 1): ['__CPROVER_assigns(self->_best_move, self->_current_depth, self->_stats, self->stop_search, self->check_limits_counter, ' + STK + ', g_last_depth, '
                'previous_score, __CPROVER_object_whole(previous_moves), min_bound, max_bound, elapsed)',
                '__CPROVER_loop_invariant(0 <= self->_current_depth && self->_current_depth <= 39 && (self->_current_depth == 0 || self->_current_depth < self->_search_depth))',
                '__CPROVER_loop_invariant(0 <= g_last_depth && g_last_depth <= self->_current_depth && %s)' % CNT,
                '__CPROVER_loop_invariant(!self->stop_search ==> g_last_depth == self->_current_depth)',
                '__CPROVER_loop_invariant(verif_is_root(self->_best_move))',
                '__CPROVER_loop_invariant(self->_current_depth >= 1 ==> (-%s < previous_score && previous_score < %s))' % (VINF, VINF),
                '__CPROVER_loop_invariant(-%s <= min_bound && min_bound <= %s && -%s <= max_bound && max_bound <= %s)' % (VINF, VINF, VINF, VINF)],
    (ITER, 2): ['__CPROVER_assigns(result, min_bound, max_bound, delta, self->stop_search, self->check_limits_counter, self->_stats, ' + STK + ')',
                '__CPROVER_loop_invariant(0 <= delta && delta <= %s && %s)' % (VINF, CNT),
                '__CPROVER_loop_invariant(-%s <= min_bound && min_bound <= %s && -%s <= max_bound && max_bound <= %s)' % (VINF, VINF, VINF, VINF)],
    ('compute_search_delta', 1): ['__CPROVER_assigns(i, no_times_move_repeated)',
                                  '__CPROVER_loop_invariant(0 <= i && i <= current_depth - 1 && 0 <= no_times_move_repeated && no_times_move_repeated <= current_depth - 1 - i)',
                                  '__CPROVER_decreases(i)'],
}


def jobs(tier, seed):
    h = ('struct Search nondet_Search(void); uint32_t nondet_u32(void); size_t nondet_size(void);\nuint32_t ROOTS[8];\n'
         'void h_it(void) { struct Search S = nondet_Search(); size_t n = nondet_size(); __CPROVER_assume(n >= 1 && n <= 8); S._root_moves__data = ROOTS; S._root_moves__size = n;\n'
         '  for (int i = 0; i < 8; i++) ROOTS[i] = nondet_u32(); G_BAD = nondet_u32(); g_last_depth = 0;\n  %s(&S);' % ITER + CANARY + '}\n')
    j = Job('iter_search', TUS, [ITER], h, 'h_it', contracts={ITER: C_ITER, SEARCH: C_SEARCH, PRINT: C_PRINT}, nobody=[SEARCH, PRINT], loopc=LC, enforce=ITER,
            replace=[SEARCH, PRINT], stubs=[SEARCH, PRINT], loop_contracts=True, hooks=HOOKS, pre_text=GH, timeout=2400, expect=['loop_invariant_step'],
            route='loop contracts on the iterative-deepening loop and the aspiration loop (partial correctness; termination assumed)',
            note='iter_search: best move is a root move for every stop timing; reported depths consecutive and within the limit; per-depth array and stack indices in bounds')
    return [j]
