"""C10 - no well-formed session corrupts memory (partial: what the contract proofs carry).

  Every obligation group of every property runs with CBMC's --bounds-check --pointer-check --pointer-overflow-check on the extracted
  engine functions; this module re-runs the group whose memory-safety content is specific to C10:
    - Search::iter_search: the per-depth array previous_moves[MAX_DEPTH + 1] and the search stack entries it touches stay in bounds for
      every depth limit (fixed: a52d773, `go depth 45` wrote previous_moves[41..45])
  Memory-safety obligations proved elsewhere under stated capacity preconditions: piece lists (C02/C03: count < 10 before add_piece),
  key history (C02: history counter < 800), move list capacity projection (C01 leaves).  Those preconditions are NOT discharged for
  whole sessions (a game longer than 800 plies, or a FEN with more than 10 pieces of a kind, is outside them).
"""
from props.C05 import jobs, LEVEL, ASSUMPTIONS  # noqa: F401

EXPLANATION = ('Bounds of the per-depth array and search-stack accesses of Search::iter_search for every depth limit, conditional on an assumed contract of Search::search; '
               'all other tables are covered only under the capacity preconditions stated in C01/C02/C03.')
NOT_COVERED = ['Search::search / quiescence stack depth', 'transposition table indexing', 'UCI parsing buffers (searchmoves[512])', 'game history capacity (800 plies) for arbitrarily long games',
               'piece-list capacity for positions with more than 10 pieces of one kind', 'uninitialised reads', 'threads']
