"""C10 - no well-formed session corrupts memory (partial: what the contract proofs carry).

  Every obligation group of every property runs with CBMC's --bounds-check --pointer-check --pointer-overflow-check on the extracted
  engine functions; this module holds the groups whose content is specific to C10:
    iter_search               Search::iter_search: the per-depth array previous_moves[MAX_DEPTH + 1] and the search-stack entries it touches
                              stay in bounds for every depth limit (fixed: a52d773, `go depth 45` wrote previous_moves[41..45])
    do_move/history_capacity  Position::do_move for every history length a legal game can reach (1..800 entries): the store into the
                              key history must stay inside the array.  It does not: KNOWN FINDING (see known_findings.txt) - the 800th
                              ply of a game writes _history[800]; `position startpos moves <820 plies>` crashes the engine.
  Memory-safety obligations proved elsewhere under capacity preconditions: piece lists (C02/C03: count < 10 before add_piece), move list
  capacity projection (C01 leaves).  Those preconditions are NOT discharged for whole sessions.
"""
from runner import Job
from props.C05 import jobs as c05_jobs, LEVEL, ASSUMPTIONS  # noqa: F401
from props.poscommon import *
from props.C02 import MOVE_CLASS, CLASSES, GHOST as GHOST2
from props.C11 import loops_unwind

EXPLANATION = ('Bounds of the per-depth array and search-stack accesses of Search::iter_search for every depth limit (conditional on an assumed contract of Search::search), and '
               'the key-history store of Position::do_move for every reachable history length; all other tables are covered only under the capacity preconditions stated in C01/C02/C03.')
NOT_COVERED = ['Search::search / quiescence stack depth', 'transposition table indexing', 'UCI parsing buffers (searchmoves[512])',
               'piece-list capacity for positions with more than 10 pieces of one kind', 'uninitialised reads', 'threads']

REPLAY_CAP = {'needs': [], 'body': '''
  Position Q;                                     // start position; a legal game: both sides shuffle a knight
  const char* cyc[4] = {"g1f3", "g8f6", "f3g1", "f6g8"};
  int cap = VerifAccess::hcap(), n = 0;
  while (VerifAccess::hc(Q) < cap) { Q.do_move(Q.parse_uci(cyc[n % 4])); n++; }
  printf("after %d plies of a legal game the key history holds %d of %d entries\\n", n, VerifAccess::hc(Q), cap);
  Q.do_move(Q.parse_uci(cyc[n % 4]));             // the store of this do_move goes to _history[capacity]
  printf("one more legal move: history counter %d > capacity %d (the key was stored past the end of the array)\\n", VerifAccess::hc(Q), cap);
  if (VerifAccess::hc(Q) > cap) printf("CONFIRMED out-of-bounds store into the key history on the real code\\n"); else printf("NOT-REPRODUCED\\n");
''', 'access': '''
  static int hc(const Position& P) { return P._history_counter; }
  static int hcap() { return (int)(sizeof(Position::_history) / sizeof(uint64_t)); }
'''}


def jobs(tier, seed):
    out = c05_jobs(tier, seed)
    DO = 'Position__do_move'
    c = ('__CPROVER_requires(wf_pos(self) && sp_is(self, &G_P0) && sp_pseudo_legal(&G_P0, move) && move_class(&G_P0, move) == 4)\n'
         '__CPROVER_requires(self->_history_counter >= 1 && self->_history_counter <= 800 && self->_half_move_counter <= 150 && self->_ply_counter >= 0 && self->_ply_counter < 100000)\n'
         '__CPROVER_assigns(__CPROVER_object_whole(self))\n'
         '__CPROVER_ensures(self->_history_counter == __CPROVER_old(self->_history_counter) + 1)\n')
    h = ND + ('void h_cap(void) { struct Position P = nondet_Position(); uint32_t m = nondet_u32(); sp_of(&P, &G_P0); %s(&P, m);' % DO + CANARY + '}\n')
    out.append(Job('do_move/history_capacity', PTUS, [DO], h, 'h_cap', contracts={DO: c}, enforce=DO, spec=SPEC, post_spec=POST, pre_text=GHOST2 + MOVE_CLASS,
                   unwindset=loops_unwind([('Position__remove_piece', 11), ('Position__move_piece', 11)]), timeout=1800, flags=['--slice-formula'], replay=REPLAY_CAP,
                   route='closed-by-complete-unwinding(11); piece mutators inlined',
                   note='do_move (quiet moves) for every history length a legal game can reach: the key-history store stays inside the array'))
    return out
