"""C15 - move classification predicates tell the truth.

  move_is_capture / move_is_quiet / move_gives_check under contract, for every well-formed position and every LEGAL move:
  the answers equal what spec_after (the mailbox rules) says happens when the move is played.  Sliders are taken by their
  C11 contract (look-up == ray walk); KNIGHT_MASK by its C11 table fact.  C02 ties spec_after to the real do_move.
"""
from runner import Job, tu
from props.poscommon import *
from props.C02 import MOVE_CLASS, CLASSES

LEVEL = 'proof'
EXPLANATION = ('The three predicates are compared with the rule oracle (piece removed / nothing captured or promoted / enemy king attacked in spec_after) '
               'for all well-formed positions and all legal moves, split by move class.')
ASSUMPTIONS = ['positions: representation invariant wf_pos, side not to move not in check (legal positions as in C01)', 'slider_attack<B|R|Q>(sq, occ) == ray walk (discharged in C11: magic/slider_attack_3/4/5)', 'KNIGHT_MASK[sq] == knight moves (discharged in C11: geom/rays_masks)',
               'spec_after == what Position::do_move does (discharged in C02)']
NOT_COVERED = []

TUS15 = tu('position.cpp', 'types.cpp', 'zobrist_hash.cpp', 'bithacks.cpp', 'move_bitboards.cpp')
GHOST = 'SPos G_P0; uint32_t G_CLASS; uint32_t G_KIND;\nstruct Position W_P; uint32_t W_m;\n'
CAP, QUI, CHK = 'Position__move_is_capture', 'Position__move_is_quiet', 'Position__move_gives_check'
PRE = ('__CPROVER_requires(wf_pos(self) && sp_is(self, &G_P0) && !sp_in_check(G_P0.board, 1 - G_P0.side) && sp_legal(&G_P0, move) && move_class(&G_P0, move) == G_CLASS)\n'
       '__CPROVER_assigns()\n')
C_CAP = PRE + '__CPROVER_ensures(__CPROVER_return_value == sp_is_capture(&G_P0, move))\n'
C_QUI = PRE + '__CPROVER_ensures(__CPROVER_return_value == (!sp_is_capture(&G_P0, move) && spec_move_promo(move) == 0))\n'
C_CHK = PRE.replace('__CPROVER_assigns()', '__CPROVER_requires(G_KIND == 0 || sp_kind(G_P0.board[spec_move_from(move)]) == G_KIND)\n__CPROVER_assigns()') + '__CPROVER_ensures(__CPROVER_return_value == sp_gives_check(&G_P0, move))\n'
SL = {'slider_attack_3': '__CPROVER_requires(sq < 64)\n__CPROVER_assigns()\n__CPROVER_ensures(__CPROVER_return_value == spec_bishop_walk(sq, blockers))\n',
      'slider_attack_4': '__CPROVER_requires(sq < 64)\n__CPROVER_assigns()\n__CPROVER_ensures(__CPROVER_return_value == spec_rook_walk(sq, blockers))\n',
      'slider_attack_5': '__CPROVER_requires(sq < 64)\n__CPROVER_assigns()\n__CPROVER_ensures(__CPROVER_return_value == spec_queen_walk(sq, blockers))\n'}
GIVES = '''
static inline _Bool sp_gives_check(const SPos *P, uint32_t m)
{ SPos Q; sp_after(P, m, &Q); return sp_in_check(Q.board, 1 - P->side); }
'''
REPLAY = {'needs': ['W_m'], 'body': '''
  SPos P0; VerifAccess::abs(P, P0); uint32_t m = (uint32_t)W_m;
  if (!sp_legal(&P0, m)) { printf("counterexample move is not legal in the witness position\\n"); return 0; }
  SPos Q; sp_after(&P0, m, &Q);
  bool cap = P.move_is_capture((Move)m); bool qui = P.move_is_quiet((Move)m); bool chk = P.move_gives_check((Move)m);
  bool scap = sp_is_capture(&P0, m); bool squi = !scap && spec_move_promo(m) == 0; bool schk = sp_in_check(Q.board, 1 - P0.side);
  printf("position %s move 0x%x: capture %d/%d quiet %d/%d gives_check %d/%d (engine/rules)\\n", P.fen().c_str(), m, cap, scap, qui, squi, chk, schk);
  if (cap != scap || qui != squi || chk != schk) printf("CONFIRMED move classification disagrees with what happens when the move is played\\n"); else printf("NOT-REPRODUCED\\n");
''', 'access': '''
  static void abs(const Position& P, SPos& o) { for (int s = 0; s < 64; s++) o.board[s] = (uint32_t)P._board[s]; o.side = (uint32_t)P._current_side; o.rights = (uint32_t)P._castling_rights; o.ep = (uint32_t)P._enpassant_square; o.half = P._half_move_counter; o.ply = P._ply_counter; }
'''}


# quick tier: the special move classes and pawn moves (2-8 min each); captures / quiet moves of the other five piece kinds take 15-25 min each: thorough tier
QUICK15 = ('castling', 'enpassant', 'promotion', 'quiet_pawn')


def jobs(tier, seed):
    out = []
    for fn, c, nm in ((CAP, C_CAP, 'move_is_capture'), (QUI, C_QUI, 'move_is_quiet')):
        h = ND + ('void h_p(void) { struct Position P = nondet_Position(); uint32_t m = nondet_u32(); G_CLASS = nondet_u32(); sp_of(&P, &G_P0); W_P = P; W_m = m;\n'
                  '  %s(&P, m);' % fn + CANARY + '}\n')
        out.append(Job(nm, TUS15, [fn], h, 'h_p', contracts={fn: c}, enforce=fn, spec=SPEC + ['geom.h'], post_spec=POST,
                       pre_text=GHOST + MOVE_CLASS + GIVES, timeout=1500, replay=REPLAY, note=nm + ' == the rule oracle, all legal moves'))
    KINDS = ['', 'pawn', 'knight', 'bishop', 'rook', 'queen', 'king']
    for ci, cname in enumerate(CLASSES):
        # captures and quiet moves are split further by the kind of the moving piece (one direct-check rule per query)
        kinds = range(1, 7) if cname in ('capture', 'quiet') else [0]
        for kd in kinds:
            h = ND + ('void h_p(void) { struct Position P = nondet_Position(); uint32_t m = nondet_u32(); G_CLASS = %d; G_KIND = %d; sp_of(&P, &G_P0); W_P = P; W_m = m;\n'
                      '  for (uint32_t s = 0; s < 64; s++) KNIGHT_MASK[s] = spec_knight(s);   /* C11: geom/rays_masks */\n'
                      '  %s(&P, m);' % (ci, kd, CHK) + CANARY + '}\n')
            out.append(Job('move_gives_check/' + cname + ('_' + KINDS[kd] if kd else ''), TUS15, [CHK], h, 'h_p', contracts=dict(SL, **{CHK: C_CHK}), nobody=list(SL),
                           enforce=CHK, replace=list(SL), spec=SPEC + ['geom.h'], post_spec=POST, pre_text=GHOST + MOVE_CLASS + GIVES,
                           timeout=3600, replay=REPLAY, tier=('quick' if (cname + ('_' + KINDS[kd] if kd else '')) in QUICK15 else 'thorough'),
                           note='move_gives_check == enemy king attacked in spec_after (direct, discovered, e.p., castling, promotion); move class: ' + cname + (', moving piece: ' + KINDS[kd] if kd else '')))
    return out
