"""C03 - unmaking a move restores the position exactly.

  undo_move/<class>   Position::undo_move under contract: if the position is the result of playing pseudo-legal move m in a
                      well-formed position P0 (board, state, counters == spec_after(P0, m), undo record == the one do_move returns -
                      both facts are do_move's postcondition in C02), then afterwards board (ghost square), side, rights, e.p. square,
                      both clocks and the history counter are those of P0, the representation invariant holds (piece lists as sets)
                      and the key components are again the from-scratch ones (C04's hash_ok)
  null/do, null/undo  do_null_move / undo_null_move: same for the null move
  Nested make/unmake sequences: by induction over these contracts (wf and hash_ok are pre- and postconditions of every step).
"""
from runner import Job, tu
from props.poscommon import *
from props.C02 import MOVE_CLASS, CLASSES
from props.C04 import HGHOST, HPOST, HG, HSET, linear_scan

LEVEL = 'proof'
EXPLANATION = ('undo_move(do_move(P, m)) == P on the abstract state (board, bitboards, piece lists as sets, side, rights, e.p., clocks, key components, '
               'history counter) for every well-formed P and pseudo-legal m, and the same for null moves; arbitrarily nested sequences follow by induction '
               'because every contract re-establishes the invariant it requires.')
ASSUMPTIONS = ['the order of entries inside a piece list is not part of the abstract state (no function under contract depends on it except through the set; evaluation/generation order-independence is not proved here)',
               'the position handed to undo_move is do_move\'s postcondition (C02) with the undo record do_move returned',
               'derived observers (fen, hash, is_repeated, evaluation, generated moves) are functions of the abstract state: proved only for those that have their own contracts (C04 keys, C07 predicates)',
               'search/perft nesting (recursion) is not re-proved here: it is the induction over these contracts']
NOT_COVERED = ['perft/search recursion under a recursive contract', 'static evaluation unchanged (follows from C13/C14 purity only where those are proved)']

UNDO, DONULL, UNDONULL = 'Position__undo_move', 'Position__do_null_move', 'Position__undo_null_move'
GHOST = 'SPos G_P0; SPos G_P1; uint32_t G_SQ; uint32_t G_PC; int G_I, G_J; uint32_t G_CLASS;\nstruct Position W_P; uint32_t W_m; uint32_t W_mi;\n'
PRE_UNDO = ('__CPROVER_requires(sp_state_ok(&G_P0) && sp_pseudo_legal(&G_P0, move) && move_class(&G_P0, move) == G_CLASS && G_SQ < 64 && G_PC >= 1 && G_PC <= 12)\n'
            '__CPROVER_requires(wf_pos(self) && sp_is(self, &G_P1) && hash_ok(self))\n'
            '__CPROVER_requires(moveinfo == spec_mi_pack(sp_captured_kind(&G_P0, move), G_P0.rights, G_P0.ep, sp_is_ep(&G_P0, move), G_P0.half))\n'
            '__CPROVER_requires(G_P0.half <= 150 && G_P0.ply >= 0 && G_P0.ply < 100000 && self->_history_counter >= 2 && self->_history_counter <= 800)\n'
            '__CPROVER_requires(sp_kind(sp_captured_code(&G_P0, move)) == 0 || self->_piece_count[sp_captured_code(&G_P0, move)] < 10)\n'
            '__CPROVER_requires(spec_move_promo(move) == 0 || self->_piece_count[sp_piece(G_P0.side, 1)] < 10)\n'
            '__CPROVER_assigns(__CPROVER_object_whole(self))\n')
UPARTS = {
    'state': ('__CPROVER_ensures(self->_current_side == G_P0.side && self->_castling_rights == G_P0.rights && self->_enpassant_square == G_P0.ep)\n'
              '__CPROVER_ensures(self->_half_move_counter == G_P0.half && self->_ply_counter == G_P0.ply)\n'
              '__CPROVER_ensures(self->_history_counter == __CPROVER_old(self->_history_counter) - 1)\n'),
    'board': '__CPROVER_ensures(self->_board[G_SQ] == G_P0.board[G_SQ])\n',
    'bitboards': '__CPROVER_ensures(wf_board_at(self, G_SQ))\n',
    'lists': '__CPROVER_ensures(wf_row_at(self, G_PC, G_SQ, G_I, G_J))\n',
    'keys': '__CPROVER_ensures(hash_ok(self))\n',
}
C_UNDO = PRE_UNDO + ''.join(UPARTS.values())
CAPT = '''
/* piece code removed by the move (0 if none; the e.p. victim is handled by the e.p. flag of the undo record) */
static inline uint32_t sp_captured_code(const SPos *P, uint32_t m) { return spec_move_ccode(m) != 0 ? 0u : (sp_is_ep(P, m) ? sp_piece(1 - P->side, 1) : P->board[spec_move_to(m)]); }
'''
C_DONULL = ('__CPROVER_requires(wf_pos(self) && hash_ok(self) && sp_is(self, &G_P0) && self->_half_move_counter <= 150 && self->_ply_counter >= 0 && self->_ply_counter < 100000 && G_SQ < 64)\n'
            '__CPROVER_assigns(__CPROVER_object_whole(self))\n'
            '__CPROVER_ensures(self->_board[G_SQ] == G_P0.board[G_SQ] && self->_current_side == 1 - G_P0.side && self->_castling_rights == G_P0.rights && self->_enpassant_square == 64)\n'
            '__CPROVER_ensures(self->_half_move_counter == G_P0.half + 1 && self->_ply_counter == G_P0.ply + 1 && self->_history_counter == __CPROVER_old(self->_history_counter))\n'
            '__CPROVER_ensures(wf_board_at(self, G_SQ) && wf_row_at(self, G_PC, G_SQ, G_I, G_J) && hash_ok(self))\n'
            '__CPROVER_ensures(__CPROVER_return_value == spec_mi_pack(0, 0, G_P0.ep, 0, 0))\n')
C_UNDONULL = ('__CPROVER_requires(sp_state_ok(&G_P0) && G_SQ < 64 && wf_board(self) && wf_lists(self) && hash_ok(self) && G_P0.half <= 150 && G_P0.ply >= 0 && G_P0.ply < 100000)\n'
              '__CPROVER_requires(self->_board[G_SQ] == G_P0.board[G_SQ] && self->_current_side == 1 - G_P0.side && self->_castling_rights == G_P0.rights && self->_enpassant_square == 64'
              ' && self->_half_move_counter == G_P0.half + 1 && self->_ply_counter == G_P0.ply + 1 && moveinfo == spec_mi_pack(0, 0, G_P0.ep, 0, 0))\n'
              '__CPROVER_assigns(__CPROVER_object_whole(self))\n'
              '__CPROVER_ensures(self->_board[G_SQ] == G_P0.board[G_SQ] && self->_current_side == G_P0.side && self->_castling_rights == G_P0.rights && self->_enpassant_square == G_P0.ep)\n'
              '__CPROVER_ensures(self->_half_move_counter == G_P0.half && self->_ply_counter == G_P0.ply && self->_history_counter == __CPROVER_old(self->_history_counter))\n'
              '__CPROVER_ensures(wf_board_at(self, G_SQ) && wf_row_at(self, G_PC, G_SQ, G_I, G_J) && hash_ok(self))\n')


# replay: the counterexample's position before the move (G_P0) and the move are played and taken back on the real engine
REPLAY_UNDO = {'needs': ['G_P0.side', 'W_m'], 'body': '''
  SPos S; memset(&S, 0, sizeof S);
  for (int s = 0; s < 64; s++) S.board[s] = (sp_pc)G_P0_board[s];
  S.side = (uint32_t)G_P0_side; S.rights = (uint32_t)G_P0_rights; S.ep = (uint32_t)G_P0_ep;
  std::string fen; const char* pcs = ".PNBRQKpnbrqk";
  for (int r = 7; r >= 0; r--) { int e = 0; for (int f = 0; f < 8; f++) { int pc = S.board[r * 8 + f]; if (!pc) e++; else { if (e) fen += char('0' + e); e = 0; fen += pcs[pc]; } } if (e) fen += char('0' + e); if (r) fen += '/'; }
  fen += S.side ? " b " : " w "; std::string cr; if (S.rights & 1) cr += 'K'; if (S.rights & 2) cr += 'Q'; if (S.rights & 4) cr += 'k'; if (S.rights & 8) cr += 'q'; fen += cr.empty() ? "-" : cr;
  fen += ' '; if (S.ep == 64) fen += '-'; else { fen += char('a' + (S.ep & 7)); fen += char('1' + (S.ep >> 3)); }
  fen += " " + std::to_string((unsigned)G_P0_half) + " 1";
  Position Q(fen);
  std::string f0 = Q.fen(); uint64_t k0 = Q.hash(), pk0 = Q.pawn_hash(); bool rep0 = Q.is_repeated(), dr0 = Q.is_draw();
  Piece b0[64]; for (int s = 0; s < 64; s++) b0[s] = Q.piece_at((Square)s);
  Move m = (Move)W_m; MoveInfo mi = Q.do_move(m); std::string f1 = Q.fen(); Q.undo_move(m, mi);
  int bad = 0;
  if (Q.fen() != f0) { printf("FEN before %s, after do/undo %s\\n", f0.c_str(), Q.fen().c_str()); bad++; }
  if (Q.hash() != k0 || Q.pawn_hash() != pk0) { printf("keys differ after do/undo\\n"); bad++; }
  if (Q.is_repeated() != rep0 || Q.is_draw() != dr0) { printf("repetition/draw answers differ after do/undo\\n"); bad++; }
  for (int s = 0; s < 64; s++) if (Q.piece_at((Square)s) != b0[s]) { printf("square %d differs after do/undo\\n", s); bad++; }
  printf("position %s, move %s (-> %s): %d observable(s) changed by do_move + undo_move\\n", f0.c_str(), Q.uci(m).c_str(), f1.c_str(), bad);
  if (bad) printf("CONFIRMED do_move followed by undo_move does not restore the position\\n"); else printf("NOT-REPRODUCED\\n");
''', 'access': ''}
REPLAY_UNDO_DECL = '#include <cstring>\n'


def jobs(tier, seed):
    out = []
    common = dict(spec=SPEC, post_spec=HPOST, force_globals=HG, post=linear_scan)
    for ci, cname in enumerate(CLASSES):
        for part, ens in UPARTS.items():
            h = ND + ('void h_undo(void) { struct Position P = nondet_Position(); uint32_t m = nondet_u32(), mi = nondet_u32(); SPos nondet_SPos(void); G_P0 = nondet_SPos();\n'
                      '  G_SQ = nondet_u32(); G_PC = nondet_u32(); G_I = nondet_int(); G_J = nondet_int(); G_CLASS = %d; __CPROVER_assume(sp_state_ok(&G_P0) && sp_pseudo_legal(&G_P0, m)); sp_after(&G_P0, m, &G_P1); W_P = P; W_m = m; W_mi = mi;\n' % ci + HSET +
                      '  %s(&P, m, mi);' % UNDO + CANARY + '}\n')
            out.append(Job('undo_move/%s/%s' % (cname, part), PTUS, [UNDO], h, 'h_undo', contracts={UNDO: PRE_UNDO + ens}, enforce=UNDO, pre_text=HGHOST + GHOST + MOVE_CLASS + CAPT,
                           unwindset=loops_unwind([('Position__remove_piece', 11), ('Position__move_piece', 11)]), timeout=2400, flags=['--slice-formula'],
                           canary=(part == 'state'), backend=('cadical' if part == 'lists' else 'minisat'), tier=('thorough' if part == 'lists' else 'quick'), route='closed-by-complete-unwinding(11); piece mutators inlined',
                           replay=REPLAY_UNDO, note='undo_move restores the abstract state of the position before the move; move class: %s; part: %s' % (cname, part), **common))
            out[-1].replay_decl = REPLAY_UNDO_DECL
    h = ND + ('void h_dn(void) { struct Position P = nondet_Position(); G_SQ = nondet_u32(); G_PC = nondet_u32(); G_I = nondet_int(); G_J = nondet_int(); __CPROVER_assume(G_PC >= 1 && G_PC <= 12); sp_of(&P, &G_P0);\n' + HSET + '  %s(&P);' % DONULL + CANARY + '}\n')
    out.append(Job('null/do_null_move', PTUS, [DONULL], h, 'h_dn', contracts={DONULL: C_DONULL}, enforce=DONULL, pre_text=HGHOST + GHOST + CAPT, timeout=1200,
                   note='null move: side flipped, e.p. square and its key component cleared, clocks advanced, placement untouched', **common))
    h = ND + ('void h_un(void) { struct Position P = nondet_Position(); uint32_t mi = nondet_u32(); SPos nondet_SPos(void); G_P0 = nondet_SPos(); G_SQ = nondet_u32(); G_PC = nondet_u32(); G_I = nondet_int(); G_J = nondet_int(); __CPROVER_assume(G_PC >= 1 && G_PC <= 12);\n' + HSET +
              '  %s(&P, mi);' % UNDONULL + CANARY + '}\n')
    out.append(Job('null/undo_null_move', PTUS, [UNDONULL], h, 'h_un', contracts={UNDONULL: C_UNDONULL}, enforce=UNDONULL, pre_text=HGHOST + GHOST + CAPT, timeout=1200,
                   note='undo of the null move restores side, e.p. square (and its key component), clocks', **common))
    return out
