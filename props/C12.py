"""C12 - KPK knowledge equals the game-theoretic truth.

  index/*         getIndex / parse_index: layout, range, mutual inverses (contracts, loop-free)
  initial_score   under contract == spec_kpk_initial (illegal / stalemate-or-pawn-falls draw / safe promotion win / unknown)
  update_score    under contract == spec_kpk_update for an ARBITRARY 196,608-entry label table (symbolic array)
  check/normalize under contract: bit look-up at the index; file mirror / colour flip of the three squares
  lemma/mirror    the one-step rules are invariant under the file mirror used by normalize (spec-side lemma)
  fixpoint        bitbase::init is a 196,608-entry in-place iteration to stability: beyond CBMC as a whole.  Stand-in, labelled:
                  the real init() is run natively and ALL entries (x both colours x file mirror through the real normalize/check)
                  are compared with the oracle's own retrograde solution.  Never counted as proved.
"""
from runner import Job, NativeJob, tu
from props.C11 import loops_unwind

LEVEL = 'proof'
EXPLANATION = ('Rules layer proved by contracts on the real initial_score/update_score/getIndex/parse_index/check/normalize for all indices '
               'and arbitrary label tables; the fix-point iteration of bitbase::init is covered only by a labelled exhaustive native stand-in.')
ASSUMPTIONS = ['soundness of retrograde analysis: one-step-correct initial_score/update_score + iteration to stability gives the game-theoretic value (pen-and-paper lemma)',
               'a safe promotion (new piece cannot be captured at once) wins: KQK/KRK are won (chess knowledge, not proved here)',
               'KPK with a black pawn is the colour-mirror of KPK with a white pawn (symmetry of the rules of chess)',
               'bitbase::init fix-point: exhaustive native stand-in only (labelled, not counted as proved)']
NOT_COVERED = ['Endgame<kKPK> evaluator scoring on top of the win/draw bit (C13/C14)']

TUS = tu('bitbase.cpp', 'types.cpp', 'bithacks.cpp')
CANARY = '\n#ifdef CANARY\n  __CPROVER_assert(0, "CANARY: must fail (reachability of the point after the call)");\n#endif\n'
ND = 'uint32_t nondet_u32(void);\n'
NORM = 'normalize__Color_Color_Square_Square_Square'

C_GETINDEX = ('__CPROVER_requires(side <= 1 && wKing < 64 && bKing < 64 && wPawn < 64 && (wPawn & 7) <= 3 && (wPawn >> 3) >= 1 && (wPawn >> 3) <= 6)\n'
              '__CPROVER_assigns()\n__CPROVER_ensures(__CPROVER_return_value == kpk_index(side, wKing, wPawn, bKing) && __CPROVER_return_value < KPK_MAX_INDEX)\n')
C_PARSE = ('__CPROVER_requires(idx < KPK_MAX_INDEX)\n__CPROVER_assigns(*side, *wKing, *wPawn, *bKing)\n'
           '__CPROVER_ensures(*side == kpk_side(idx) && *wKing == kpk_wk(idx) && *wPawn == kpk_wp(idx) && *bKing == kpk_bk(idx))\n'
           '__CPROVER_ensures(kpk_index(*side, *wKing, *wPawn, *bKing) == idx)\n')
C_INIT = '__CPROVER_requires(idx < KPK_MAX_INDEX)\n__CPROVER_assigns()\n__CPROVER_ensures(__CPROVER_return_value == spec_kpk_initial(idx))\n'
C_UPD = ('__CPROVER_requires(idx < KPK_MAX_INDEX && kpk_legal_idx(idx) && __CPROVER_r_ok(results, KPK_MAX_INDEX * sizeof(uint32_t)) && spec_kpk_succ_labels_ok(results, idx))\n'
         '__CPROVER_assigns()\n__CPROVER_ensures(__CPROVER_return_value == spec_kpk_update(results, idx))\n')
C_CHECK = ('__CPROVER_requires(side <= 1 && wKing < 64 && bKing < 64 && wPawn < 64 && (wPawn & 7) <= 3 && (wPawn >> 3) >= 1 && (wPawn >> 3) <= 6)\n'
           '__CPROVER_assigns()\n__CPROVER_ensures(__CPROVER_return_value == ((BITBASE[kpk_index(side, wKing, wPawn, bKing) / 32] >> (kpk_index(side, wKing, wPawn, bKing) & 31)) & 1))\n')
C_NORM = ('__CPROVER_requires(strongSide <= 1 && *side <= 1 && *strongKing < 64 && *strongPawn < 64 && *weakKing < 64)\n'
          '__CPROVER_assigns(*side, *strongKing, *strongPawn, *weakKing)\n'
          '__CPROVER_ensures(*strongPawn == (__CPROVER_old(*strongPawn) ^ ((__CPROVER_old(*strongPawn) & 7) > 3 ? 7 : 0) ^ (strongSide == 1 ? 56 : 0)))\n'
          '__CPROVER_ensures(*strongKing == (__CPROVER_old(*strongKing) ^ ((__CPROVER_old(*strongPawn) & 7) > 3 ? 7 : 0) ^ (strongSide == 1 ? 56 : 0)))\n'
          '__CPROVER_ensures(*weakKing == (__CPROVER_old(*weakKing) ^ ((__CPROVER_old(*strongPawn) & 7) > 3 ? 7 : 0) ^ (strongSide == 1 ? 56 : 0)))\n'
          '__CPROVER_ensures(*side == (strongSide == 1 ? 1 - __CPROVER_old(*side) : __CPROVER_old(*side)) && (*strongPawn & 7) <= 3)\n')

REPLAY_UPD = {'needs': ['W_idx'], 'body': '''
  std::vector<engine::bitbase::Result> res(KPK_MAX_INDEX, (engine::bitbase::Result)1);
  std::vector<uint32_t> lab(KPK_MAX_INDEX, 1u);
  for (uint32_t i = 0; i < KPK_MAX_INDEX; i++) { lab[i] = spec_kpk_initial(i) == KPK_INVALID ? KPK_INVALID : KPK_UNKNOWN; }
  for (int k = 0; k < 16; k++) if (W_si[k] < KPK_MAX_INDEX) lab[W_si[k]] = (uint32_t)W_sv[k];
  for (uint32_t i = 0; i < KPK_MAX_INDEX; i++) res[i] = (engine::bitbase::Result)lab[i];
  uint32_t got = (uint32_t)engine::bitbase::update_score(res, (uint32_t)W_idx), want = spec_kpk_update(lab.data(), (uint32_t)W_idx);
  uint32_t i = (uint32_t)W_idx;
  printf("index %u: side %u wK %u wP %u bK %u: update_score = %u, rules say %u\\n", i, kpk_side(i), kpk_wk(i), kpk_wp(i), kpk_bk(i), got, want);
  if (got != want) printf("CONFIRMED update_score(idx=%u) = %u but the one-step rules give %u\\n", i, got, want); else printf("NOT-REPRODUCED\\n");
''', 'access': '', }
REPLAY_DECL = '''namespace engine { namespace bitbase { enum Result : uint32_t; Result update_score(const std::vector<Result>&, uint32_t); Result initial_score(uint32_t); } }
#include <vector>
'''

STANDIN = r'''
#define _Bool bool
#include <cstdio>
#include <cstdint>
#include <vector>
#include "types.h"
#include "endgame.h"
#include "kpk.h"
using namespace engine;
static const char* sqn(uint32_t s) { static char b[8][3]; static int k = 0; k = (k + 1) & 7; b[k][0] = 'a' + (s & 7); b[k][1] = '1' + (s >> 3); b[k][2] = 0; return b[k]; }
int main() {
  bitbase::init();                       // the real fix-point iteration
  std::vector<uint32_t> lab(KPK_MAX_INDEX);
  for (uint32_t i = 0; i < KPK_MAX_INDEX; i++) lab[i] = spec_kpk_initial(i);
  bool again = true; int passes = 0;
  while (again) { again = false; passes++;
    for (uint32_t i = 0; i < KPK_MAX_INDEX; i++) if (lab[i] == KPK_UNKNOWN) { uint32_t r = spec_kpk_update(lab.data(), i); if (r != KPK_UNKNOWN) { lab[i] = r; again = true; } } }
  long legal = 0, bad = 0, wins = 0;
  for (uint32_t i = 0; i < KPK_MAX_INDEX; i++) {
    if (lab[i] == KPK_INVALID) continue;
    uint32_t side = kpk_side(i), wk = kpk_wk(i), wp = kpk_wp(i), bk = kpk_bk(i);
    bool truth = lab[i] == KPK_WIN; wins += truth;
    // four images: pawn colour x file mirror, looked up through the real normalize + check
    for (int img = 0; img < 4; img++) {
      uint32_t fm = (img & 1) ? 7 : 0, rm = (img & 2) ? 56 : 0;
      Color strong = (img & 2) ? BLACK : WHITE;
      Color stm = Color((img & 2) ? 1 - side : side);
      Square sk = Square(wk ^ fm ^ rm), sp = Square(wp ^ fm ^ rm), wkk = Square(bk ^ fm ^ rm);
      Color s2 = stm; Square a = sk, b = sp, c = wkk;
      bitbase::normalize(strong, s2, a, b, c);
      bool got = bitbase::check(s2, a, b, c);
      legal++;
      if (got != truth) { if (bad < 10) printf("CONFIRMED KPK %s pawn %s, strong king %s, weak king %s, %s to move: engine says %s, truth is %s\n",
          strong == WHITE ? "white" : "black", sqn(sp), sqn(sk), sqn(wkk), stm == WHITE ? "white" : "black", got ? "WIN" : "draw", truth ? "WIN" : "draw"); bad++; }
    }
  }
  printf("compared %ld legal KPK positions (both pawn colours, all eight files), %ld won per colour/file-half, oracle passes %d, mismatches %ld\n", legal, wins, passes, bad);
  return bad ? 1 : 0;
}
'''


def jobs(tier, seed):
    out = []
    h = ND + ('void h_idx(void) { uint32_t s = nondet_u32(), a = nondet_u32(), p = nondet_u32(), b = nondet_u32();\n'
              '  getIndex(s, a, p, b);' + CANARY + '}\n')
    out.append(Job('index/getIndex', TUS, ['getIndex'], h, 'h_idx', contracts={'getIndex': C_GETINDEX},
                   enforce='getIndex', spec=['kpk.h'], timeout=300, note='index layout, range < MAX_INDEX'))
    h = ND + ('void h_idx(void) { uint32_t i = nondet_u32();\n'
              '  Color sd; Square x, y, z; parse_index(i, &sd, &x, &y, &z);' + CANARY + '}\n')
    out.append(Job('index/parse_index', TUS, ['parse_index'], h, 'h_idx', contracts={'parse_index': C_PARSE},
                   enforce='parse_index', spec=['kpk.h'], timeout=300, note='decoding of the index; getIndex layout(parse_index(i)) == i'))
    h = ND + 'uint32_t W_idx;\nvoid h_init(void) { uint32_t i = nondet_u32(); W_idx = i; initial_score(i);' + CANARY + '}\n'
    out.append(Job('initial_score', TUS, ['initial_score'], h, 'h_init', contracts={'initial_score': C_INIT}, enforce='initial_score',
                   spec=['kpk.h'], timeout=900, note='initial classification == rules, all 196,608 indices',
                   replay={'needs': ['W_idx'], 'access': '', 'body': '''
  uint32_t i = (uint32_t)W_idx; uint32_t got = (uint32_t)engine::bitbase::initial_score(i), want = spec_kpk_initial(i);
  printf("index %u: side %u wK %u wP %u bK %u: initial_score = %u, rules say %u\\n", i, kpk_side(i), kpk_wk(i), kpk_wp(i), kpk_bk(i), got, want);
  if (got != want) printf("CONFIRMED initial_score(idx=%u) = %u but the rules give %u\\n", i, got, want); else printf("NOT-REPRODUCED\\n");
'''}, pre_text=''))
    out[-1].replay_decl = REPLAY_DECL
    h = ND + ('uint32_t R[KPK_MAX_INDEX]; uint32_t W_idx; uint32_t W_si[16]; uint32_t W_sv[16];\n'
              'void h_upd(void) { uint32_t i = nondet_u32(); __CPROVER_assume(i < KPK_MAX_INDEX); W_idx = i;\n'
              '  /* witness: labels of the (at most 10) successor indices */\n'
              '  for (int k = 0; k < 8; k++) { uint32_t t = kpk_step(kpk_side(i) == 0 ? kpk_wk(i) : kpk_bk(i), k); uint32_t s = t < 64 ? kpk_index(1 - kpk_side(i), kpk_side(i) == 0 ? t : kpk_wk(i), kpk_wp(i), kpk_side(i) == 0 ? kpk_bk(i) : t) : KPK_MAX_INDEX; W_si[k] = s; W_sv[k] = s < KPK_MAX_INDEX ? R[s] : 0; }\n'
              '  { uint32_t s = (kpk_wp(i) >> 3) < 6 ? kpk_index(1, kpk_wk(i), kpk_wp(i) + 8, kpk_bk(i)) : KPK_MAX_INDEX; W_si[8] = s; W_sv[8] = s < KPK_MAX_INDEX ? R[s] : 0; }\n'
              '  { uint32_t s = (kpk_wp(i) >> 3) == 1 ? kpk_index(1, kpk_wk(i), kpk_wp(i) + 16, kpk_bk(i)) : KPK_MAX_INDEX; W_si[9] = s; W_sv[9] = s < KPK_MAX_INDEX ? R[s] : 0; }\n'
              '  update_score(R, i);' + CANARY + '}\n')
    j = Job('update_score', TUS, ['update_score'], h, 'h_upd', contracts={'update_score': C_UPD}, enforce='update_score', gb=6,
            spec=['kpk.h'], timeout=1500, flags=['--arrays-uf-always'], unwindset=loops_unwind([('update_score', 9)]),
            route='closed-by-complete-unwinding(9): a king has at most 8 steps',
            note='one retrograde step == rules for an arbitrary label table (symbolic 196,608-entry array); double push needs both squares empty',
            replay=REPLAY_UPD)
    j.replay_decl = REPLAY_DECL
    out.append(j)
    h = ND + ('void h_chk(void) { uint32_t s = nondet_u32(), a = nondet_u32(), p = nondet_u32(), b = nondet_u32(); check(s, a, p, b);' + CANARY + '}\n')
    out.append(Job('check', TUS, ['check'], h, 'h_chk', contracts={'check': C_CHECK}, enforce='check',
                   spec=['kpk.h'], timeout=600, flags=['--arrays-uf-always'], note='look-up reads the bit of the index'))
    h = ND + ('void h_norm(void) { Color st = nondet_u32(), sd = nondet_u32(); Square x = nondet_u32(), y = nondet_u32(), z = nondet_u32(); %s(st, &sd, &x, &y, &z);' % NORM + CANARY + '}\n')
    out.append(Job('normalize', TUS, [NORM], h, 'h_norm', contracts={NORM: C_NORM}, enforce=NORM,
                   spec=['kpk.h'], timeout=600, note='normalize mirrors files e-h to a-d and flips colours, for all inputs'))
    h = ND + ('void h_mirror(void) { uint32_t side = nondet_u32(), wk = nondet_u32(), wp = nondet_u32(), bk = nondet_u32();\n'
              '  __CPROVER_assume(side <= 1 && wk < 64 && wp < 64 && bk < 64 && (wp >> 3) >= 1 && (wp >> 3) <= 6);\n'
              '  __CPROVER_assert(kpk_legal(side, wk, wp, bk) == kpk_legal(side, wk ^ 7, wp ^ 7, bk ^ 7), "legality is invariant under the file mirror");\n'
              '  int k = (int)(nondet_u32() & 7); uint32_t t = kpk_step(bk, k), tm = kpk_step(bk ^ 7, k ^ (k < 3 ? (k == 1 ? 0 : 2) : (k < 5 ? 7 : (k == 6 ? 0 : 2))));\n'
              '  __CPROVER_assert(kpk_dist(wk, bk) == kpk_dist(wk ^ 7, bk ^ 7) && kpk_pawn_attacks(wp, bk) == kpk_pawn_attacks(wp ^ 7, bk ^ 7), "distances and pawn attacks are invariant under the file mirror");\n'
              + CANARY + '}\n')
    out.append(Job('lemma/file_mirror', tu('types.cpp'), ['from'], h, 'h_mirror', spec=['kpk.h'], timeout=300,
                   note='spec-side lemma: the ingredients of the one-step rules (legality, king distance, pawn attack) commute with the file mirror'))
    out.append(NativeJob('fixpoint/bitbase_init', STANDIN, 'exhaustive-native stand-in for bitbase::init (all 196,608 indices x 4 images)', spec=['kpk.h'],
                         timeout=600, note='real init() + normalize + check versus the oracle\'s own retrograde solution'))
    return out
