"""C16 - move text, move encoding (and FEN: not within reach) round-trip.

Obligation groups
  enc/*      every encoder/decoder of types.cpp / types.h under its own contract against spec/moveenc.h
             (the bit layout of the property statement), loop-free, full input domain
  lemma/*    round-trip lemmas proved over those contracts only (calls replaced by contracts)
  uci/*      Position::uci and Position::parse_uci under contract with std::string bound to a fixed-capacity
             character buffer (assumed binding), and the text round-trip lemma over the two contracts
"""
from runner import Job, tu

LEVEL = 'proof'
EXPLANATION = ('Each move / moveinfo encoder and decoder is checked against the bit layout of the property statement for its '
               'full input domain (loop-free code, symbolic arguments); the round-trip statements are lemmas over the contracts.')
ASSUMPTIONS = ['FEN text I/O (Position(std::string), Position::fen: istringstream/ostringstream/std::map) is outside the verified subset: the FEN clause of C16 is NOT decided by this check',
               'std::string operations used by uci/parse_uci ([] size += literal construction) are bound to a fixed-capacity character buffer (assumed library semantics)',
               'Release build flags (-DNDEBUG): assert()/ASSERT() are no-ops in the verified text exactly as in the shipped binary']
NOT_COVERED = ['FEN round trip (iostream code)']

TUS = tu('types.cpp')

DEC = {
    'from': ('__CPROVER_assigns()\n__CPROVER_ensures(__CPROVER_return_value == spec_move_from(move))\n', 'uint32_t m', 'from(m)'),
    'to': ('__CPROVER_assigns()\n__CPROVER_ensures(__CPROVER_return_value == spec_move_to(move))\n', 'uint32_t m', 'to(m)'),
    'promotion': ('__CPROVER_assigns()\n__CPROVER_ensures(__CPROVER_return_value == spec_move_promo(move))\n', 'uint32_t m', 'promotion(m)'),
    'castling': ('__CPROVER_assigns()\n__CPROVER_ensures(__CPROVER_return_value == spec_castling_of_code(spec_move_ccode(move)))\n', 'uint32_t m', 'castling(m)'),
    'create_move': ('__CPROVER_requires(from < 64 && to < 64)\n__CPROVER_assigns()\n__CPROVER_ensures(__CPROVER_return_value == spec_move_pack(from, to, 0, 0))\n',
                    'uint32_t a, b', 'create_move(a, b)'),
    'create_promotion': ('__CPROVER_requires(from < 64 && to < 64 && promotion <= 6)\n__CPROVER_assigns()\n__CPROVER_ensures(__CPROVER_return_value == spec_move_pack(from, to, promotion, 0))\n',
                         'uint32_t a, b, c', 'create_promotion(a, b, c)'),
    'create_castling': ('__CPROVER_requires(castling == SPEC_KING_CASTLING || castling == SPEC_QUEEN_CASTLING)\n__CPROVER_assigns()\n'
                        '__CPROVER_ensures(__CPROVER_return_value == spec_move_pack(0, 0, 0, castling == SPEC_KING_CASTLING ? 1 : 2))\n',
                        'uint32_t a', 'create_castling(a)'),
    'create_moveinfo': ('__CPROVER_requires(captured <= 6 && last_castling <= 15 && last_enpassant <= 64)\n__CPROVER_assigns()\n'
                        '__CPROVER_ensures(__CPROVER_return_value == spec_mi_pack(captured, last_castling, last_enpassant, enpassant, half_move_counter))\n',
                        'uint32_t a, b, c; _Bool d = nondet_bool(); uint8_t e', 'create_moveinfo(a, b, c, d, e)'),
    'captured_piece': ('__CPROVER_assigns()\n__CPROVER_ensures(__CPROVER_return_value == (moveinfo & 7))\n', 'uint32_t m', 'captured_piece(m)'),
    'last_castling': ('__CPROVER_assigns()\n__CPROVER_ensures(__CPROVER_return_value == ((moveinfo >> 3) & 15))\n', 'uint32_t m', 'last_castling(m)'),
    'last_enpassant_square': ('__CPROVER_assigns()\n__CPROVER_ensures(__CPROVER_return_value == (((moveinfo >> 13) & 1) ? ((moveinfo >> 7) & 63) : SPEC_NO_SQUARE))\n',
                              'uint32_t m', 'last_enpassant_square(m)'),
    'enpassant': ('__CPROVER_assigns()\n__CPROVER_ensures(__CPROVER_return_value == ((moveinfo >> 14) & 1))\n', 'uint32_t m', 'enpassant(m)'),
    'half_move_counter': ('__CPROVER_assigns()\n__CPROVER_ensures(__CPROVER_return_value == ((moveinfo >> 15) & 255))\n', 'uint32_t m', 'half_move_counter(m)'),
}

PRE = '_Bool nondet_bool(void);\n'
CANARY = '\n#ifdef CANARY\n  __CPROVER_assert(0, "CANARY: must fail (reachability of the point after the call)");\n#endif\n'


def enc_replay(fn):
    def mk(inputs, failed):
        return None
    return None


def jobs(tier, seed):
    out = []
    contracts = {k: v[0] for k, v in DEC.items()}
    for fn, (c, decl, call) in DEC.items():
        h = PRE + 'void h_%s(void) { %s; %s;%s }\n' % (fn, decl, call, CANARY)
        out.append(Job('enc/' + fn, TUS, [fn], h, 'h_' + fn, contracts={fn: c}, enforce=fn, spec=['moveenc.h'],
                       timeout=300, note='decoder/encoder == bit layout of the statement, full domain'))
    # round-trip lemmas over the contracts only
    lemma = PRE + '''
void h_lemma(void) {
  uint32_t f, t, p, c, cap, r, ep, clk; _Bool was = nondet_bool();
  __CPROVER_assume(f < 64 && t < 64);
  uint32_t m = create_move(f, t);
  __CPROVER_assert(from(m) == f && to(m) == t && promotion(m) == 0 && castling(m) == 0, "create_move decodes to its fields");
  __CPROVER_assume(p >= 2 && p <= 5);
  uint32_t mp = create_promotion(f, t, p);
  __CPROVER_assert(from(mp) == f && to(mp) == t && promotion(mp) == p && castling(mp) == 0, "create_promotion decodes to its fields");
  __CPROVER_assume(c == SPEC_KING_CASTLING || c == SPEC_QUEEN_CASTLING);
  uint32_t mc = create_castling(c);
  __CPROVER_assert(castling(mc) == c, "create_castling decodes to its code");
  __CPROVER_assert(mc != m && mc != mp && mp != m && mc != 0 && mp != 0, "castling, promotion and plain encodings are pairwise distinct and not NO_MOVE");
  __CPROVER_assume(cap <= 6 && r <= 15 && ep <= 64 && clk <= 255);
  uint32_t mi = create_moveinfo(cap, r, ep, was, (uint8_t)clk);
  __CPROVER_assert(captured_piece(mi) == cap && last_castling(mi) == r && last_enpassant_square(mi) == ep && enpassant(mi) == was && half_move_counter(mi) == clk,
                   "moveinfo decodes to the fields it was built from");
''' + CANARY + '}\n'
    out.append(Job('lemma/roundtrip', TUS, list(DEC), lemma, 'h_lemma', contracts=contracts, nobody=list(DEC),
                   replace=list(DEC), spec=['moveenc.h'], timeout=300,
                   note='round trip as a lemma over the contracts (bodies not visible in this query)'))
    # ---- UCI text: Position::uci / Position::parse_uci under contract, std::string bound to verif_string
    PT = tu('position.cpp', 'types.cpp')
    UCI_TXT = '(__CPROVER_return_value.n == (size_t)spec_uci_len(self->_current_side, move)' + ''.join(
        ' && __CPROVER_return_value.s[%d] == spec_uci_char(self->_current_side, move, %d)' % (i, i) for i in range(5)) + ')'
    c_uci = ('__CPROVER_requires(spec_uci_movable(self->_board, self->_current_side, move))\n__CPROVER_assigns()\n'
             '__CPROVER_ensures(%s)\n' % UCI_TXT)
    STR_IS = '(str->n == (size_t)spec_uci_len(self->_current_side, G_M)' + ''.join(
        ' && str->s[%d] == spec_uci_char(self->_current_side, G_M, %d)' % (i, i) for i in range(5)) + ')'
    c_parse = ('__CPROVER_requires(spec_uci_movable(self->_board, self->_current_side, G_M) && %s)\n__CPROVER_assigns()\n'
               '__CPROVER_ensures(__CPROVER_return_value == G_M)\n' % STR_IS)
    ghost = 'uint32_t G_M;\n'
    wit = 'struct Position W_P; uint32_t W_m;\n'
    h_uci = PRE + wit + 'struct Position nondet_Position(void); uint32_t nondet_u32(void);\nvoid h_uci(void) { struct Position P = nondet_Position(); uint32_t m = nondet_u32(); W_P = P; W_m = m; Position__uci(&P, m);' + CANARY + ' }\n'
    out.append(Job('uci/Position__uci', PT, ['Position__uci'], h_uci, 'h_uci', contracts={'Position__uci': c_uci},
                   enforce='Position__uci', spec=['ucitext.h'], pre_text=ghost, timeout=600,
                   note='printed text == UCI long algebraic text of the move (all moves of legal shape, both colours)',
                   replay={'needs': ['W_m'], 'body': '''
  uint32_t side = (uint32_t)P.color(); std::string want;
  for (int i = 0; i < spec_uci_len(side, (uint32_t)W_m); i++) want += spec_uci_char(side, (uint32_t)W_m, i);
  std::string got = P.uci((Move)W_m);
  printf("move 0x%x side %u: engine uci() = '%s', UCI text = '%s'\\n", (unsigned)W_m, side, got.c_str(), want.c_str());
  if (got != want) printf("CONFIRMED uci() prints '%s' for move 0x%x, expected '%s'\\n", got.c_str(), (unsigned)W_m, want.c_str()); else printf("NOT-REPRODUCED\\n");
'''}))
    h_parse = PRE + wit + ('struct Position nondet_Position(void); uint32_t nondet_u32(void); struct verif_string nondet_str(void);\n'
                     'void h_parse(void) { struct Position P = nondet_Position(); struct verif_string s = nondet_str(); G_M = nondet_u32(); W_P = P; Position__parse_uci(&P, &s);' + CANARY + ' }\n')
    out.append(Job('uci/Position__parse_uci', PT, ['Position__parse_uci'], h_parse, 'h_parse', contracts={'Position__parse_uci': c_parse},
                   enforce='Position__parse_uci', spec=['ucitext.h'], pre_text=ghost, timeout=600,
                   note='parsing the UCI text of ghost move G_M in the same position returns G_M; no exception; string indices within size',
                   replay={'needs': ['G_M'], 'body': '''
  uint32_t side = (uint32_t)P.color(); std::string txt;
  for (int i = 0; i < spec_uci_len(side, (uint32_t)G_M); i++) txt += spec_uci_char(side, (uint32_t)G_M, i);
  Move got = 0; bool threw = false;
  try { got = P.parse_uci(txt); } catch (...) { threw = true; }
  printf("fen %s text '%s' (move 0x%x): parse_uci -> 0x%x%s\\n", P.fen().c_str(), txt.c_str(), (unsigned)G_M, (unsigned)got, threw ? " (exception)" : "");
  if (threw || got != (Move)G_M) printf("CONFIRMED parse_uci('%s') = 0x%x, expected 0x%x\\n", txt.c_str(), (unsigned)got, (unsigned)G_M); else printf("NOT-REPRODUCED\\n");
'''}))
    h_rt = PRE + ('struct Position nondet_Position(void); uint32_t nondet_u32(void);\n'
                  'void h_rt(void) { struct Position P = nondet_Position(); uint32_t m = nondet_u32();\n'
                  '  __CPROVER_assume(spec_uci_movable(P._board, P._current_side, m)); G_M = m;\n'
                  '  struct verif_string s = Position__uci(&P, m);\n  uint32_t back = Position__parse_uci(&P, &s);\n'
                  '  __CPROVER_assert(back == m, "parse_uci(uci(m)) == m in the same position");' + CANARY + ' }\n')
    out.append(Job('lemma/uci_roundtrip', PT, ['Position__uci', 'Position__parse_uci'], h_rt, 'h_rt',
                   contracts={'Position__uci': c_uci, 'Position__parse_uci': c_parse}, nobody=['Position__uci', 'Position__parse_uci'],
                   replace=['Position__uci', 'Position__parse_uci'], spec=['ucitext.h'], pre_text=ghost, timeout=600,
                   note='text round trip as a lemma over the two contracts'))
    return out
