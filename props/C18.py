"""C18 - opening-book keys follow the Polyglot specification.

  PolyglotBook::hash under contract.  The key is GF(2)-linear in the 781 constants with coefficients that depend on the
  position only (the code never branches on a constant or on the key), so it equals the format's formula for ALL constant
  tables iff it does for every indicator table (one constant = 1, all others = 0).  The harness makes the constants ghost
  indicators of a nondeterministic item (a piece-square cell, one of the four castling constants, an e.p. file, the turn
  constant) and the contract demands  hash(P) == [that item occurs in the format's formula for P]:
     piece cell (pc, sq)  occurs  iff  board[sq] == pc
     castling constant k  occurs  iff  right k is set
     e.p. file f          occurs  iff  an e.p. square is set on file f AND a pawn of the side to move stands on an adjacent
                                       file of the rank it would capture from
     turn                 occurs  iff  White is to move
"""
import re
from runner import Job, tu
from props.poscommon import SPEC, POST, ND, CANARY
from props.C11 import loops_unwind

LEVEL = 'proof'
EXPLANATION = ('PolyglotBook::hash is proved equal to the board-based formula of the Polyglot format, component by component, by the '
               'indicator-table argument (linearity over GF(2)); piece-list loops are closed by complete unwinding to the list capacity.')
ASSUMPTIONS = ['the 781 constants stored in engine/polyglot.cpp are the published Random64 values in Polyglot order: NOT checkable offline (no copy of the published table in this sandbox); the claim is relative to the stored constants',
               'linearity argument: PolyglotBook::hash XORs constants selected by the position and never branches on a constant or on the key (checked by a syntactic scan of the extracted function on every run)',
               'positions satisfy the representation invariant wf_pos (board == bitboards == piece lists)']
NOT_COVERED = ['identity of the stored constants with the published table']

TUS = tu('polyglot.cpp', 'position.cpp', 'types.cpp', 'bithacks.cpp')
HASH = 'PolyglotBook__hash'
CONSTS = ['POLYGLOT_CASTLING_WHITE_SHORT', 'POLYGLOT_CASTLING_WHITE_LONG', 'POLYGLOT_CASTLING_BLACK_SHORT', 'POLYGLOT_CASTLING_BLACK_LONG', 'POLYGLOT_TURN']
GHOST = 'uint32_t G_SEL, G_PC, G_SQ, G_K, G_F;\nstruct Position W_P;\n'


def symbolic_constants(text):
    """the stored constants become ghost-settable variables (indicator tables); aborts if the shapes are not found"""
    n_total = 0
    for c in CONSTS:
        text, n = re.subn(r'#define %s \(\(uint64_t\)\([^\n]*\)\)\n' % c, 'uint64_t %s;\n' % c, text)
        n_total += n
    text, n1 = re.subn(r'static const uint64_t POLYGLOT_PIECE\[13\]\[64\] = \{.*?\};\n', 'uint64_t POLYGLOT_PIECE[13][64];\n', text, flags=re.S)
    text, n2 = re.subn(r'static const uint64_t POLYGLOT_ENPASSANT\[8\] = \{.*?\};\n', 'uint64_t POLYGLOT_ENPASSANT[8];\n', text, flags=re.S)
    if n_total != 5 or n1 != 1 or n2 != 1:
        import cxx2c
        raise cxx2c.Drift('Polyglot constant declarations not found in the expected shape (%d/%d/%d)' % (n_total, n1, n2))
    # linearity scan: inside the hash function the constants only occur as `key ^= CONST...;`
    m = re.search(r'\nuint64_t PolyglotBook__hash\(.*?\n\}\n', text, flags=re.S)
    body = m.group(0)
    for line in body.split('\n'):
        if 'POLYGLOT_' in line and not re.match(r'\s*\(key \^= POLYGLOT_[A-Z_]+(\[[^;]*\])?\);\s*$', line):
            import cxx2c
            raise cxx2c.Drift('PolyglotBook::hash uses a constant outside `key ^= CONSTANT`: ' + line.strip())
    return text


OCCURS = '''
/* does the selected constant occur in the Polyglot key of the position? (format definition, on the mailbox board) */
static inline _Bool pg_occurs(const SPos *P)
{
  if (G_SEL == 0) return P->board[G_SQ] == G_PC;
  if (G_SEL == 1) return (P->rights >> G_K) & 1;
  if (G_SEL == 2) {
    if (P->ep == SP_NONE || (P->ep & 7) != G_F) return 0;
    /* the pawn that just made the double step stands behind the e.p. square; a pawn of the side to move next to it can capture */
    uint32_t pawn_sq = P->side == 0 ? P->ep - 8 : P->ep + 8; int f = (int)(pawn_sq & 7), r = (int)(pawn_sq >> 3);
    return sp_at(P->board, f - 1, r) == sp_piece(P->side, 1) || sp_at(P->board, f + 1, r) == sp_piece(P->side, 1);
  }
  return P->side == 0;
}
'''
SPOS = 'SPos G_P0;\n'
C_HASH = ('__CPROVER_requires(wf_pos(position) && sp_is(position, &G_P0) && G_SEL <= 3 && G_PC >= 1 && G_PC <= 12 && G_SQ < 64 && G_K < 4 && G_F < 8)\n'
          '__CPROVER_assigns()\n__CPROVER_ensures(__CPROVER_return_value == (pg_occurs(&G_P0) ? 1 : 0))\n')

REPLAY = {'needs': ['G_SEL'], 'exclude_objs': ['polyglot.cpp'], 'body': '''
  // the Polyglot formula evaluated on the mailbox board with the engine's own stored constants
  SPos P0; VerifAccess::abs(P, P0);
  uint64_t want = 0;
  for (int s = 0; s < 64; s++) if (P0.board[s]) want ^= engine::POLYGLOT_PIECE[P0.board[s]][s];
  if (P0.rights & 1) want ^= engine::POLYGLOT_CASTLING_WHITE_SHORT;
  if (P0.rights & 2) want ^= engine::POLYGLOT_CASTLING_WHITE_LONG;
  if (P0.rights & 4) want ^= engine::POLYGLOT_CASTLING_BLACK_SHORT;
  if (P0.rights & 8) want ^= engine::POLYGLOT_CASTLING_BLACK_LONG;
  if (P0.ep != SP_NONE) { uint32_t ps = P0.side == 0 ? P0.ep - 8 : P0.ep + 8; int f = ps & 7, r = ps >> 3;
    if (sp_at(P0.board, f - 1, r) == sp_piece(P0.side, 1) || sp_at(P0.board, f + 1, r) == sp_piece(P0.side, 1)) want ^= engine::POLYGLOT_ENPASSANT[P0.ep & 7]; }
  if (P0.side == 0) want ^= engine::POLYGLOT_TURN;
  uint64_t got = PolyglotBook::hash(P);
  printf("position %s: engine key %016llx, format formula %016llx\\n", P.fen().c_str(), (unsigned long long)got, (unsigned long long)want);
  if (got != want) printf("CONFIRMED PolyglotBook::hash differs from the Polyglot formula\\n"); else printf("NOT-REPRODUCED\\n");
''', 'access': '''
  static void abs(const Position& P, SPos& o) { for (int s = 0; s < 64; s++) o.board[s] = (sp_pc)P._board[s]; o.side = (uint32_t)P._current_side; o.rights = (uint32_t)P._castling_rights; o.ep = (uint32_t)P._enpassant_square; o.half = P._half_move_counter; o.ply = P._ply_counter; }
'''}
REPLAY_DECL = '''
#include "polyglot.cpp"   // textual include: the constants have internal linkage (polyglot.cpp.o is left out of the link)
'''


def jobs(tier, seed):
    """one obligation group per selected constant class (and per piece code): the ghost selectors are fixed in the harness, so every group is
    the same function body and contract with a smaller case space; together they cover every value of (G_SEL, G_PC)"""
    out = []
    cases = [('piece_%02d' % pc, 0, pc) for pc in range(1, 13)] + [('castling', 1, None), ('enpassant', 2, None), ('turn', 3, None)]
    for name, sel, pc in cases:
        h = ND + ('void h_pg(void) { struct Position P = nondet_Position(); W_P = P; sp_of(&P, &G_P0);\n'
                  '  G_SEL = %d; G_PC = %s; G_SQ = nondet_u32(); G_K = nondet_u32(); G_F = nondet_u32();\n' % (sel, pc if pc is not None else 'nondet_u32()') +
                  '  __CPROVER_assume(G_SEL <= 3 && G_PC >= 1 && G_PC <= 12 && G_SQ < 64 && G_K < 4 && G_F < 8);\n'
                  '  for (uint32_t p = 0; p < 13; p++) for (uint32_t s = 0; s < 64; s++) POLYGLOT_PIECE[p][s] = (G_SEL == 0 && p == G_PC && s == G_SQ) ? 1 : 0;\n'
                  '  POLYGLOT_CASTLING_WHITE_SHORT = (G_SEL == 1 && G_K == 0); POLYGLOT_CASTLING_WHITE_LONG = (G_SEL == 1 && G_K == 1);\n'
                  '  POLYGLOT_CASTLING_BLACK_SHORT = (G_SEL == 1 && G_K == 2); POLYGLOT_CASTLING_BLACK_LONG = (G_SEL == 1 && G_K == 3);\n'
                  '  for (uint32_t f = 0; f < 8; f++) POLYGLOT_ENPASSANT[f] = (G_SEL == 2 && f == G_F) ? 1 : 0;\n'
                  '  POLYGLOT_TURN = (G_SEL == 3);\n'
                  '  %s(&P);' % HASH + CANARY + '}\n')
        j = Job('hash/' + name, TUS, [HASH], h, 'h_pg', contracts={HASH: C_HASH}, enforce=HASH, spec=SPEC, post_spec=POST, pre_text=GHOST + SPOS + OCCURS,
                post=symbolic_constants, unwindset=loops_unwind([('PolyglotBook__hash', 14)]), canary=(name in ('piece_01', 'turn')),
                route='closed-by-complete-unwinding(14 / 11): 12 piece codes, piece lists of capacity 10', timeout=1800,
                replay=REPLAY, note='key == Polyglot formula for the selected constant class (%s), all well-formed positions' % name)
        j.replay_decl = REPLAY_DECL
        out.append(j)
    return out
