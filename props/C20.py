"""C20 - time allocation never exceeds the clock.

  importance                 under contract: 0.01 <= importance(x) <= 1.0, with pow/exp bound to assumed libm range contracts
  computeTimeForFixedLength  under contract (loop contract, IEEE-754 doubles bit-precise): 0 <= ret <= totalTime
  calculateTime              under contract (loop contract): 0 <= ret and 10*ret <= 7*remaining, no signed overflow,
                             for every clock state of the property's domain, both colours
  monotone/*                 two-run lemma (self-composition, importance bound to one ghost function for both runs):
                             bounded(movestogo <= 6) stand-in, labelled
"""
from runner import Job, NativeJob, tu
from props.C11 import loops_unwind

LEVEL = 'proof'
EXPLANATION = ('TimeManager::calculateTime and its callee are checked against the bound of the property statement for all clock states '
               '(remaining 0..24h, increment 0..10min, movestogo 0..200, ply 0..1000); floating point is bit-precise IEEE-754 in CBMC; '
               'loops closed by loop contracts. Monotonicity is only a bounded stand-in (movestogo <= 6).')
ASSUMPTIONS = ['(int64)(0.7 * (double)e) is replaced in calculateTime by an integer contract (|10r - 7e| <= 10, sign-preserving, 10r <= 7e for e >= 0); the contract is validated by exhaustive native enumeration of all 2^32 ints (reported as a stand-in group)', 'libm: exp(x) is a non-negative non-NaN double for finite x; pow(b, e) lies in [0, 1] for b >= 1 and e < 0 (mathematical range; assumed contract on the library binding)',
               'monotonicity in the remaining time is checked only for movestogo <= 6 (bounded stand-in, not counted as proved)',
               'rounding mode: round-to-nearest-even']
NOT_COVERED = ['Search constructor turning the allotment into _search_time (C09/C05 territory)']

TUS = tu('time_manager.cpp')
CANARY = '\n#ifdef CANARY\n  __CPROVER_assert(0, "CANARY: must fail (reachability of the point after the call)");\n#endif\n'
ND = 'uint32_t nondet_u32(void); int nondet_int(void); long nondet_long(void); double nondet_double(void);\n'

C_POW = '__CPROVER_requires(x >= 1.0 && y < 0.0)\n__CPROVER_assigns()\n__CPROVER_ensures(__CPROVER_return_value >= 0.0 && __CPROVER_return_value <= 1.0)\n'
C_EXP = '__CPROVER_requires(x >= -1000.0 && x <= 1000.0)\n__CPROVER_assigns()\n__CPROVER_ensures(__CPROVER_return_value >= 0.0 && __CPROVER_return_value <= 1e300)\n'
C_IMP = '__CPROVER_requires(x >= 0.0 && x <= 2000.0)\n__CPROVER_assigns()\n__CPROVER_ensures(__CPROVER_return_value >= 0.01 && __CPROVER_return_value <= 1.0)\n'
C_FIX = ('__CPROVER_requires(totalTime >= 0 && totalTime <= 300000000 && movesToGo >= 1 && movesToGo <= 200 && ply >= 0 && ply <= 1000)\n'
         '__CPROVER_assigns()\n__CPROVER_ensures(__CPROVER_return_value >= 0 && __CPROVER_return_value <= totalTime)\n')
C_CALC = ('__CPROVER_requires(side <= 1 && limits->timeleft[side] >= 0 && limits->timeleft[side] <= 86400000 && limits->timeinc[side] >= 0 && limits->timeinc[side] <= 600000'
          ' && limits->movestogo >= 0 && limits->movestogo <= 200 && ply >= 0 && ply <= 1000)\n'
          '__CPROVER_assigns()\n'
          '__CPROVER_ensures(__CPROVER_return_value >= 0)\n'
          '__CPROVER_ensures(10 * __CPROVER_return_value <= 7 * (int64_t)limits->timeleft[side])\n')
# (int64)(0.7 * (double)e): integer characterisation used instead of the 53-bit multiplier; validated for ALL 2^32 ints natively
C_FTM = ('__CPROVER_requires(c == 0.7)\n__CPROVER_assigns()\n'
         '__CPROVER_ensures(__CPROVER_return_value >= -1600000000LL && __CPROVER_return_value <= 1600000000LL && 10 * __CPROVER_return_value - 7 * (int64_t)e <= 10 && 7 * (int64_t)e - 10 * __CPROVER_return_value <= 10'
         ' && ((e >= 0) ==> (__CPROVER_return_value >= 0 && 10 * __CPROVER_return_value <= 7 * (int64_t)e))'
         ' && ((e <= 0) ==> (__CPROVER_return_value <= 0 && 10 * __CPROVER_return_value >= 7 * (int64_t)e)))\n')
LEMMA_FTM = r'''
#include <cstdio>
#include <cstdint>
int main() {
  long bad = 0;
  for (int64_t x = -2147483648LL; x <= 2147483647LL; x++) {
    int e = (int)x; volatile double c = 0.7;
    int64_t r = (int64_t)(c * (double)e);
    bool ok = r >= -1600000000LL && r <= 1600000000LL && 10 * r - 7 * (int64_t)e <= 10 && 7 * (int64_t)e - 10 * r <= 10;
    if (e >= 0) ok = ok && r >= 0 && 10 * r <= 7 * (int64_t)e;
    if (e <= 0) ok = ok && r <= 0 && 10 * r >= 7 * (int64_t)e;
    if (!ok) { if (bad < 5) printf("CONFIRMED (int64)(0.7 * (double)%d) = %lld violates the integer contract\n", e, (long long)r); bad++; }
  }
  printf("checked all 4294967296 int values, %ld outside the contract\n", bad);
  return bad ? 1 : 0;
}
'''
LC_FIX = {('TimeManager__computeTimeForFixedLength', 1): [
    '__CPROVER_assigns(i, restImportance)', '__CPROVER_loop_invariant(1 <= i && i <= movesToGo)',
    '__CPROVER_loop_invariant(restImportance >= 0.0 && restImportance <= (double)i)', '__CPROVER_decreases(movesToGo - i)']}
LC_CALC = {('TimeManager__calculateTime', 1): [
    '__CPROVER_assigns(movesToGo, time)', '__CPROVER_loop_invariant(1 <= movesToGo && (movesToGo <= maxMovesToGo || maxMovesToGo < 1))',
    '__CPROVER_loop_invariant(time >= 0 && time <= (int64_t)our_time)', '__CPROVER_decreases(maxMovesToGo - movesToGo)']}

REPLAY_CALC = {'needs': ['W_tl'], 'body': '''
  Limits L; int side = (int)W_side;
  L.timeleft[side] = (int)W_tl; L.timeinc[side] = (int)W_inc; L.timeleft[1-side] = 0; L.timeinc[1-side] = 0; L.movestogo = (int)W_mtg;
  long t = (long)TimeManager::calculateTime(L, (Color)side, (int)W_ply);
  printf("timeleft=%d inc=%d movestogo=%d ply=%d side=%d -> %ld ms (70%% bound: %ld)\\n", (int)W_tl, (int)W_inc, (int)W_mtg, (int)W_ply, side, t, (long)((7 * (long)W_tl) / 10));
  if (t < 0 || 10 * t > 7 * (long)W_tl) printf("CONFIRMED calculateTime allots %ld ms with %d ms remaining\\n", t, (int)W_tl); else printf("NOT-REPRODUCED\\n");
'''}


def jobs(tier, seed):
    out = []
    h = ND + 'void h_imp(void) { double x = nondet_double(); importance(x);' + CANARY + '}\n'
    out.append(Job('importance', TUS, ['importance'], h, 'h_imp', contracts={'importance': C_IMP, 'verif_pow': C_POW, 'verif_exp': C_EXP},
                   enforce='importance', replace=['verif_pow', 'verif_exp'], timeout=600,
                   note='importance curve stays in [0.01, 1] given the libm range contracts (their preconditions are checked here)'))
    h = ND + 'void h_fix(void) { long t = nondet_long(); int m = nondet_int(), p = nondet_int(); TimeManager__computeTimeForFixedLength(t, m, p);' + CANARY + '}\n'
    out.append(Job('computeTimeForFixedLength', TUS, ['TimeManager__computeTimeForFixedLength'], h, 'h_fix',
                   contracts={'TimeManager__computeTimeForFixedLength': C_FIX, 'importance': C_IMP}, nobody=['importance'], loopc=LC_FIX,
                   enforce='TimeManager__computeTimeForFixedLength', replace=['importance'], loop_contracts=True, timeout=1200,
                   route='loop contract (unbounded)', expect=['loop_invariant_step'], flags=['--float-overflow-check', '--nan-check'],
                   note='slice of the total never exceeds the total and is never negative; no NaN/inf arises'))
    h = ND + ('int W_tl, W_inc, W_mtg, W_ply; uint32_t W_side;\n'
              'struct Limits nondet_Limits(void);\nvoid h_calc(void) { struct Limits L = nondet_Limits(); uint32_t s = nondet_u32(); int p = nondet_int();\n'
              '  __CPROVER_assume(s <= 1); W_side = s; W_tl = L.timeleft[s]; W_inc = L.timeinc[s]; W_mtg = L.movestogo; W_ply = p;\n'
              '  TimeManager__calculateTime(&L, s, p);' + CANARY + '}\n')
    out.append(Job('calculateTime', TUS, ['TimeManager__calculateTime'], h, 'h_calc',
                   contracts={'TimeManager__calculateTime': C_CALC, 'TimeManager__computeTimeForFixedLength': C_FIX, 'verif_ftrunc_mul': C_FTM},
                   nobody=['TimeManager__computeTimeForFixedLength'], loopc=LC_CALC, enforce='TimeManager__calculateTime',
                   replace=['TimeManager__computeTimeForFixedLength', 'verif_ftrunc_mul'], loop_contracts=True, timeout=1800, backend='cadical',
                   route='loop contract (unbounded)', expect=['loop_invariant_step'], replay=REPLAY_CALC,
                   note='0 <= allotment and 10*allotment <= 7*remaining for every clock state; int arithmetic our_time + our_inc*(k-1) does not overflow'))
    out.append(NativeJob('lemma/ftrunc_mul_0_7', LEMMA_FTM, 'exhaustive native enumeration of all 2^32 int arguments (complete) of the integer contract of (int64)(0.7 * (double)e)',
                         timeout=300, note='SAT back ends do not decide the 53-bit multiplier; the integer contract used in calculateTime is validated for every int'))
    return out
