"""Shared contracts of engine::Position's mutators and the HashKey (used by C02, C03, C04, C07, C15, C18)."""
from runner import Job, tu
from props.C11 import loops_unwind

PTUS = tu('position.cpp', 'types.cpp', 'zobrist_hash.cpp', 'bithacks.cpp')
CANARY = '\n#ifdef CANARY\n  __CPROVER_assert(0, "CANARY: must fail (reachability of the point after the call)");\n#endif\n'
ND = 'uint32_t nondet_u32(void); uint64_t nondet_u64(void); int nondet_int(void); _Bool nondet_bool(void);\nstruct Position nondet_Position(void);\n'
SPEC = ['poswf_decl.h']
POST = ['poswf.h']

ADD = 'Position__add_piece'
REM = 'Position__remove_piece'
MOV = 'Position__move_piece'
K = lambda p: '((%s - 1) %% 6 + 1)' % p
COL = lambda p: '(%s >= 7 ? 1 : 0)' % p

# hash deltas (C04): pawns go to the pawn key, everything else to the piece key
def hdelta(old, piece, expr):
    return ('__CPROVER_ensures(self->_zobrist_hash._pawn_key == (__CPROVER_old(self->_zobrist_hash._pawn_key) ^ (%s == 1 ? (%s) : 0)))\n'
            '__CPROVER_ensures(self->_zobrist_hash._piece_key == (__CPROVER_old(self->_zobrist_hash._piece_key) ^ (%s != 1 ? (%s) : 0)))\n'
            % (K(piece), expr, K(piece), expr))

# exact effect on every touched word (the frame says nothing else changes); list rows are characterised by wf_row
PREB = 'wf_board_at(self, %s) && wf_row(self, %s)'
C_ADD = ('__CPROVER_requires(piece >= 1 && piece <= 12 && square < 64 && wf_board_at(self, square) && wf_row(self, piece) && self->_board[square] == 0 && self->_piece_count[piece] < 10)\n'
         '__CPROVER_assigns(self->_board[square], self->_by_color_bb[piece >= 7], self->_by_piece_kind_bb[(piece - 1) % 6 + 1], '
         'self->_piece_position[piece][self->_piece_count[piece]], self->_piece_count[piece], self->_zobrist_hash._piece_key, self->_zobrist_hash._pawn_key)\n'
         '__CPROVER_ensures(self->_board[square] == piece)\n'
         '__CPROVER_ensures(self->_by_color_bb[piece >= 7] == (__CPROVER_old(self->_by_color_bb[piece >= 7]) | (1ULL << square)))\n'
         '__CPROVER_ensures(self->_by_piece_kind_bb[(piece - 1) % 6 + 1] == (__CPROVER_old(self->_by_piece_kind_bb[(piece - 1) % 6 + 1]) | (1ULL << square)))\n'
         '__CPROVER_ensures(self->_piece_count[piece] == __CPROVER_old(self->_piece_count[piece]) + 1 && self->_piece_position[piece][self->_piece_count[piece] - 1] == square)\n'
         '__CPROVER_ensures(wf_row(self, piece))\n'
         + hdelta(None, 'piece', 'PIECE_HASH[piece][square]'))
OLDP = '__CPROVER_old(self->_board[square])'
C_REM = ('__CPROVER_requires(square < 64 && wf_board_at(self, square) && self->_board[square] >= 1 && self->_board[square] <= 12 && wf_row(self, self->_board[square]))\n'
         '__CPROVER_assigns(self->_board[square], self->_by_color_bb[self->_board[square] >= 7], self->_by_piece_kind_bb[(self->_board[square] - 1) %% 6 + 1], '
         'self->_piece_position[self->_board[square]][0], self->_piece_position[self->_board[square]][1], self->_piece_position[self->_board[square]][2], self->_piece_position[self->_board[square]][3], self->_piece_position[self->_board[square]][4], self->_piece_position[self->_board[square]][5], self->_piece_position[self->_board[square]][6], self->_piece_position[self->_board[square]][7], self->_piece_position[self->_board[square]][8], self->_piece_position[self->_board[square]][9], self->_piece_count[self->_board[square]], self->_zobrist_hash._piece_key, self->_zobrist_hash._pawn_key)\n'
         '__CPROVER_ensures(self->_board[square] == 0)\n'
         '__CPROVER_ensures(self->_by_color_bb[%s >= 7] == (__CPROVER_old(self->_by_color_bb[self->_board[square] >= 7]) & ~(1ULL << square)))\n'
         '__CPROVER_ensures(self->_by_piece_kind_bb[(%s - 1) %% 6 + 1] == (__CPROVER_old(self->_by_piece_kind_bb[(self->_board[square] - 1) %% 6 + 1]) & ~(1ULL << square)))\n'
         '__CPROVER_ensures(self->_piece_count[%s] == __CPROVER_old(self->_piece_count[self->_board[square]]) - 1)\n'
         '__CPROVER_ensures(wf_row(self, %s))\n' % (OLDP, OLDP, OLDP, OLDP)
         + hdelta(None, OLDP, 'PIECE_HASH[%s][square]' % OLDP))
OLDF = '__CPROVER_old(self->_board[from])'
C_MOV = ('__CPROVER_requires(from < 64 && to < 64 && from != to && wf_board_at(self, from) && wf_board_at(self, to) && self->_board[from] >= 1 && self->_board[from] <= 12 && self->_board[to] == 0 && wf_row(self, self->_board[from]))\n'
         '__CPROVER_assigns(self->_board[from], self->_board[to], self->_by_color_bb[self->_board[from] >= 7], self->_by_piece_kind_bb[(self->_board[from] - 1) %% 6 + 1], '
         'self->_piece_position[self->_board[from]][0], self->_piece_position[self->_board[from]][1], self->_piece_position[self->_board[from]][2], self->_piece_position[self->_board[from]][3], self->_piece_position[self->_board[from]][4], self->_piece_position[self->_board[from]][5], self->_piece_position[self->_board[from]][6], self->_piece_position[self->_board[from]][7], self->_piece_position[self->_board[from]][8], self->_piece_position[self->_board[from]][9], self->_zobrist_hash._piece_key, self->_zobrist_hash._pawn_key)\n'
         '__CPROVER_ensures(self->_board[from] == 0 && self->_board[to] == %s)\n'
         '__CPROVER_ensures(self->_by_color_bb[%s >= 7] == ((__CPROVER_old(self->_by_color_bb[self->_board[from] >= 7]) & ~(1ULL << from)) | (1ULL << to)))\n'
         '__CPROVER_ensures(self->_by_piece_kind_bb[(%s - 1) %% 6 + 1] == ((__CPROVER_old(self->_by_piece_kind_bb[(self->_board[from] - 1) %% 6 + 1]) & ~(1ULL << from)) | (1ULL << to)))\n'
         '__CPROVER_ensures(wf_row(self, %s))\n' % (OLDF, OLDF, OLDF, OLDF)
         + hdelta(None, OLDF, 'PIECE_HASH[%s][from] ^ PIECE_HASH[%s][to]' % (OLDF, OLDF)))

MUT_CONTRACTS = {ADD: C_ADD, REM: C_REM, MOV: C_MOV}


def mutator_jobs(prefix=''):
    out = []
    h = ND + 'void h_add(void) { struct Position P = nondet_Position(); uint32_t pc = nondet_u32(), sq = nondet_u32(); %s(&P, pc, sq);' % ADD + CANARY + '}\n'
    out.append(Job(prefix + 'mut/add_piece', PTUS, [ADD], h, 'h_add', contracts={ADD: C_ADD}, enforce=ADD, spec=SPEC, post_spec=POST,
                   timeout=2400, backend='cadical', tier='thorough', note='add_piece: exact effect on board, both bitboards, list slot and count; list row stays well-formed; key delta'))
    h = ND + 'void h_rem(void) { struct Position P = nondet_Position(); uint32_t sq = nondet_u32(); %s(&P, sq);' % REM + CANARY + '}\n'
    out.append(Job(prefix + 'mut/remove_piece', PTUS, [REM], h, 'h_rem', contracts={REM: C_REM}, enforce=REM, spec=SPEC, post_spec=POST,
                   unwindset=loops_unwind([('remove_piece', 11)]), route='closed-by-complete-unwinding(11): piece lists have 10 slots',
                   timeout=2400, backend='cadical', tier='thorough', note='remove_piece: exact effect on board and bitboards; list row stays well-formed (swap-with-last) with one entry fewer; key delta'))
    h = ND + 'void h_mov(void) { struct Position P = nondet_Position(); uint32_t a = nondet_u32(), b = nondet_u32(); %s(&P, a, b);' % MOV + CANARY + '}\n'
    out.append(Job(prefix + 'mut/move_piece', PTUS, [MOV], h, 'h_mov', contracts={MOV: C_MOV}, enforce=MOV, spec=SPEC, post_spec=POST,
                   unwindset=loops_unwind([('move_piece', 11)]), route='closed-by-complete-unwinding(11): piece lists have 10 slots',
                   timeout=2400, backend='cadical', tier='thorough', note='move_piece: exact effect on board and bitboards; list row stays well-formed; key delta'))
    return out
