"""C19 - book look-ups return what the book file says (only the move decoding is within reach).

  decode_move   PolyglotBook::decode_move under contract: a book move is returned unchanged, except that the Polyglot encoding of castling -
                the king "takes" its own rook (e1h1, e1a1, e8h8, e8a8; the two-square king move e1g1/e1c1/e8g8/e8c8 is accepted as well) -
                becomes the engine's castling move, and ONLY when the piece standing on e1/e8 is that side's king (a rook or queen moving
                e1-h1 is an ordinary move).
  The loader (std::ifstream, std::map of std::vector), the 16-byte record decoding inside the constructor and the `best` / `random` selection
  policies (std::max_element with a lambda, std::mt19937) are outside the extractable subset: NOT decided.
"""
from runner import Job, tu

LEVEL = 'other'
EXPLANATION = ('PolyglotBook::decode_move under contract for every move encoding and every position (board contents arbitrary); '
               'file loading, record decoding and the selection policies are not covered.')
ASSUMPTIONS = ['only decode_move is under contract; that the moves handed to it are the records of the file, and that the policies pick by weight, is not verified']
NOT_COVERED = ['PolyglotBook constructor (file reading, record decoding, truncated / empty files)', 'get_best_move / get_random_move (weights, probabilities, zero-weight moves)', 'PolyglotBook::contains']

TUS = tu('polyglot.cpp', 'position.cpp', 'types.cpp')
FN = 'PolyglotBook__decode_move'
CANARY = '\n#ifdef CANARY\n  __CPROVER_assert(0, "CANARY: must fail (reachability of the point after the call)");\n#endif\n'
F, T = '($1 & 63)', '(($1 >> 6) & 63)'
WK = '(%s == 4 && $2->_board[4] == 6)' % F
BK = '(%s == 60 && $2->_board[60] == 12)' % F
SPEC = ('(%s && (%s == 7 || %s == 6)) ? (1u << 15) : (%s && (%s == 0 || %s == 2)) ? (2u << 15) : '
        '(%s && (%s == 63 || %s == 62)) ? (1u << 15) : (%s && (%s == 56 || %s == 58)) ? (2u << 15) : $1'
        % (WK, T, T, WK, T, T, BK, T, T, BK, T, T))
C = ('__CPROVER_requires(1)\n__CPROVER_assigns()\n__CPROVER_ensures(__CPROVER_return_value == (%s))\n' % SPEC)
REPLAY = {'needs': ['W_m'], 'body': '''
  Move m = (Move)W_m; uint32_t f = m & 63, t = (m >> 6) & 63, pr = (m >> 12) & 7;
  if ((m >> 15) != 0 || pr == 1 || pr > 5) { printf("the counterexample move %u is not one the book loader can produce\\nNOT-REPRODUCED\\n", (unsigned)m); return 0; }
  // a one-record book file holding this move under an arbitrary key, read by the real loader and answered by the real `best` policy
  uint64_t key = 0x0123456789abcdefULL; unsigned code = (t & 7) | ((t >> 3) << 3) | ((f & 7) << 6) | ((f >> 3) << 9) | ((pr ? pr - 1 : 0) << 12);
  unsigned char rec[16] = {0}; for (int i = 0; i < 8; i++) rec[i] = (unsigned char)(key >> (56 - 8 * i)); rec[8] = code >> 8; rec[9] = code & 255; rec[11] = 1;
  const char* path = "/tmp/verif_c19_book.bin"; FILE* fp = fopen(path, "wb"); fwrite(rec, 1, 16, fp); fclose(fp);
  PolyglotBook book(path, 1); Move got = book.get_best_move(key, P); remove(path);
  bool wk = f == 4 && P.piece_at(SQ_E1) == W_KING, bk = f == 60 && P.piece_at(SQ_E8) == B_KING;
  uint32_t want = (wk && (t == 7 || t == 6)) ? (1u << 15) : (wk && (t == 0 || t == 2)) ? (2u << 15) : (bk && (t == 63 || t == 62)) ? (1u << 15) : (bk && (t == 56 || t == 58)) ? (2u << 15) : m;
  printf("piece on e1 %d, on e8 %d; book record from %u to %u promotion %u: the book answers move %u, the format says %u\\n", (int)P.piece_at(SQ_E1), (int)P.piece_at(SQ_E8), f, t, pr, (unsigned)got, want);
  if ((uint32_t)got != want) printf("CONFIRMED the book returns a move that is not the recorded one\\n"); else printf("NOT-REPRODUCED\\n");
''', 'access': ''}


def jobs(tier, seed):
    out = []
    for name, assume, rp, note in (('decode_move', '', None, 'every 32-bit move value'),
                                   ('decode_move/book_moves', '__CPROVER_assume((m >> 15) == 0 && ((m >> 12) & 7) != 1 && ((m >> 12) & 7) <= 5); ', REPLAY,
                                    'the move values the book loader can produce (replayable through a one-record book file)')):
        h = ('uint32_t nondet_u32(void); struct Position nondet_Position(void); struct PolyglotBook nondet_PolyglotBook(void);\nstruct Position W_P; uint32_t W_m;\n'
             'void h_dm(void) { struct Position P = nondet_Position(); for (int s = 0; s < 64; s++) __CPROVER_assume(P._board[s] <= 12);\n'
             '  struct PolyglotBook B = nondet_PolyglotBook(); uint32_t m = nondet_u32(); ' + assume + 'W_P = P; W_m = m;\n'
             '  %s(&B, m, &P);' % FN + CANARY + '}\n')
        out.append(Job(name, TUS, [FN], h, 'h_dm', contracts={FN: C}, enforce=FN, timeout=600, replay=rp,
                       note='decode_move: castling from the king-takes-rook (or two-square) encoding exactly when the king stands on e1/e8; every other move unchanged - ' + note))
    return out
