"""C01 - legal move generation is exact (work in progress: leaf generators under contract in ghost-move form)."""
from runner import Job, tu
from props.mgcommon import *
from props.C11 import loops_unwind
from props.C15 import SL

LEVEL = 'proof'
EXPLANATION = 'leaf generators under contract (ghost move counter, loop contracts)'
ASSUMPTIONS = []
NOT_COVERED = []

LISTREQ = '__CPROVER_same_object(list, g_lo) && __CPROVER_POINTER_OFFSET(list) + %d <= g_cap_bytes && g_cnt >= 0 && g_cnt < 1000 && (G_M >> 17) == 0'
LISTENS = '__CPROVER_ensures(__CPROVER_same_object(__CPROVER_return_value, g_lo) && __CPROVER_POINTER_OFFSET(__CPROVER_return_value) <= __CPROVER_POINTER_OFFSET(__CPROVER_old(list)) + %d)\n'
BUF = 'uint32_t BUF[512];\n'
HSETUP = '  g_lo = BUF; g_cap_bytes = sizeof(BUF); G_M = nondet_u32(); g_cnt = nondet_int(); uint32_t off = nondet_u32(); __CPROVER_assume(off < 512); uint32_t *l = BUF + off;\n'


# look-up contracts in case form (same functions, see spec/geom.h; equality is the lemma group geom/walk_cases)
SLC = {'slider_attack_3': '__CPROVER_requires(sq < 64)\n__CPROVER_assigns()\n__CPROVER_ensures(__CPROVER_return_value == spec_bishop_walk_cases(sq, blockers))\n',
       'slider_attack_4': '__CPROVER_requires(sq < 64)\n__CPROVER_assigns()\n__CPROVER_ensures(__CPROVER_return_value == spec_rook_walk_cases(sq, blockers))\n',
       'slider_attack_5': '__CPROVER_requires(sq < 64)\n__CPROVER_assigns()\n__CPROVER_ensures(__CPROVER_return_value == (spec_rook_walk_cases(sq, blockers) | spec_bishop_walk_cases(sq, blockers)))\n'}


# look-up contracts point-wise at the three ghost squares (consequence of the full contract by the lemma group geom/sees)
def _slp(diag_expr):
    return ('__CPROVER_requires(sq < 64)\n__CPROVER_assigns()\n' +
            ''.join('__CPROVER_ensures(((__CPROVER_return_value >> %s) & 1) == (%s))\n' % (g, diag_expr.replace('G', g)) for g in ('G_F1', 'G_F2', 'G_F3')))
SLP = {'slider_attack_3': _slp('G < 64 && spec_sees(1, sq, G, blockers)'), 'slider_attack_4': _slp('G < 64 && spec_sees(0, sq, G, blockers)'),
       'slider_attack_5': _slp('G < 64 && (spec_sees(0, sq, G, blockers) || spec_sees(1, sq, G, blockers))')}


def jobs(tier, seed):
    out = []
    LEAF = {}
    h = 'uint32_t nondet_u32(void); uint64_t nondet_u64(void);\nvoid h_sees(void) { uint32_t s = nondet_u32(), t = nondet_u32(); uint64_t o = nondet_u64(); __CPROVER_assume(s < 64 && t < 64);\n  __CPROVER_assert(((spec_rook_walk(s, o) >> t) & 1) == spec_sees(0, s, t, o), "rook walk reaches t  <=>  aligned and nothing strictly between");\n  __CPROVER_assert(((spec_bishop_walk(s, o) >> t) & 1) == spec_sees(1, s, t, o), "bishop walk reaches t  <=>  aligned and nothing strictly between");' + CANARY + '}\n'
    out.append(Job('geom/sees', tu('types.cpp'), ['from'], h, 'h_sees', spec=['geom.h'], timeout=1200, note='spec-side lemma: point-wise form of the ray walks'))
    h = 'uint32_t nondet_u32(void); uint64_t nondet_u64(void);\nvoid h_wc(void) { uint32_t s = nondet_u32(); uint64_t o = nondet_u64(); __CPROVER_assume(s < 64);\n  __CPROVER_assert(spec_rook_walk(s, o) == spec_rook_walk_cases(s, o), "rook walk: arithmetic form == case form");\n  __CPROVER_assert(spec_bishop_walk(s, o) == spec_bishop_walk_cases(s, o), "bishop walk: arithmetic form == case form");' + CANARY + '}\n'
    out.append(Job('geom/walk_cases', tu('types.cpp'), ['from'], h, 'h_wc', spec=['geom.h'], timeout=900, note='spec-side lemma: the ray walks written with a symbolic origin equal their case-by-origin form'))
    common = dict(spec=['movegen.h'], pre_text=EMIT_PRE, hooks=HOOKS, loop_contracts=True, expect=['loop_invariant_step'])
    # ---- king moves
    KM = 'generate_king_moves'
    c = ('__CPROVER_requires(from < 64 && %s)\n' % (LISTREQ % 32) +
         '__CPROVER_assigns(g_cnt)\n'
         '__CPROVER_ensures(g_cnt == __CPROVER_old(g_cnt) + ((%s && %s == from && (((spec_king(from) & ~not_allowed) >> %s) & 1)) ? 1 : 0))\n' % (PLAIN, GF, GT) +
         LISTENS % 32)
    lc = {(KM, 1): bitloop_contract('%s && %s == from' % (PLAIN, GF))}
    h = ND + BUF + ('void h_k(void) { for (uint32_t s = 0; s < 64; s++) KING_MASK[s] = spec_king(s);\n' + HSETUP +
                    '  uint32_t f = nondet_u32(); uint64_t na = nondet_u64(); %s(f, na, l);' % KM + CANARY + '}\n')
    out.append(Job('leaf/generate_king_moves', MTUS, [KM], h, 'h_k', contracts={KM: c}, loopc=lc, enforce=KM, timeout=900,
                   route='loop contract (unbounded)', note='king moves: exactly the plain moves from `from` to king-step squares that are not forbidden, each once; at most 8 moves', **common))
    # ---- knight / bishop / rook / queen moves of one piece
    for k, kn, att in ((2, 'knight', 'spec_knight(from)'), (3, 'bishop', 'spec_bishop_walk(from, OCC)'), (4, 'rook', 'spec_rook_walk(from, OCC)'), (5, 'queen', 'spec_queen_walk(from, OCC)')):
        fn = 'generate_piece_moves_%d' % k
        A = att.replace('OCC', '(pos->_by_color_bb[0] | pos->_by_color_bb[1])')
        c = ('__CPROVER_requires(from < 64 && %s%s)\n' % (LISTREQ % 112, '') +
             '__CPROVER_assigns(g_cnt)\n'
             '__CPROVER_ensures(g_cnt == __CPROVER_old(g_cnt) + ((%s && %s == from && (((%s & target) >> %s) & 1)) ? 1 : 0))\n' % (PLAIN, GF, A, GT) +
             LISTENS % 112)
        lc = {(fn, 1): bitloop_contract('%s && %s == from' % (PLAIN, GF))}
        h = ND + BUF + ('void h_p(void) { for (uint32_t s = 0; s < 64; s++) KNIGHT_MASK[s] = spec_knight(s);\n' + HSETUP +
                        '  struct Position P = nondet_Position(); uint32_t f = nondet_u32(); uint64_t tg = nondet_u64(); %s(f, &P, tg, l);' % fn + CANARY + '}\n')
        kw = dict(common)
        if k != 2:
            sl = 'slider_attack_%d' % k
            kw.update(contracts={fn: c, sl: SL[sl]}, nobody=[sl], replace=[sl])
            kw['spec'] = ['movegen.h']
        else:
            kw.update(contracts={fn: c})
        out.append(Job('leaf/generate_piece_moves_' + kn, MTUS, [fn], h, 'h_p', loopc=lc, enforce=fn, timeout=1200,
                       route='loop contract (unbounded)', note=kn + ' moves of one piece: plain moves to attacked squares inside the target mask, each once; at most 28 moves', **kw))
    # ---- pawn moves (not pinned pawns), both colours
    for side in (0, 1):
        fn = 'generate_pawn_moves_%d' % side
        s9, s7, s8 = ('+ 9', '+ 7', '+ 8') if side == 0 else ('- 9', '- 7', '- 8')
        s16 = '+ 16' if side == 0 else '- 16'
        PROMO = '(%s == 0 && %s >= 2 && %s <= 5)' % (GC, GP, GP)
        c = ('__CPROVER_requires((pawns & 0xff000000000000ffULL) == 0 && __builtin_popcountll(pawns) <= 8 && %s)\n' % (LISTREQ % 384) +
             '__CPROVER_assigns(g_cnt)\n'
             '__CPROVER_ensures(g_cnt == __CPROVER_old(g_cnt) + spec_pawn_count(%d, pawns, empty, push_mask, capture_mask, G_M))\n' % side +
             LISTENS % 384)
        lc = {(fn, 1): bitloop_contract(PROMO + ' && %s == %s %s' % (GT, GF, s9), 4), (fn, 2): bitloop_contract(PROMO + ' && %s == %s %s' % (GT, GF, s7), 4),
              (fn, 3): bitloop_contract(PROMO + ' && %s == %s %s' % (GT, GF, s8), 4), (fn, 4): bitloop_contract(PLAIN + ' && %s == %s %s' % (GT, GF, s9)),
              (fn, 5): bitloop_contract(PLAIN + ' && %s == %s %s' % (GT, GF, s7)), (fn, 6): bitloop_contract(PLAIN + ' && %s == %s %s' % (GT, GF, s8)),
              (fn, 7): bitloop_contract(PLAIN + ' && %s == %s %s' % (GT, GF, s16))}
        h = ND + BUF + ('void h_pw(void) {\n' + HSETUP + '  uint64_t a = nondet_u64(), b = nondet_u64(), c = nondet_u64(), d = nondet_u64(); %s(a, b, c, d, l);' % fn + CANARY + '}\n')
        out.append(Job('leaf/generate_pawn_moves_' + ('white', 'black')[side], MTUS, [fn], h, 'h_pw', contracts={fn: c}, loopc=lc, enforce=fn, timeout=2400,
                       route='loop contracts (7 bit loops, unbounded)', note='pawn captures, pushes, double pushes and promotions for arbitrary masks: each move of the rule table exactly once; at most 96 moves', **common))
    # ---- attack_in_ray (classical ray attack through the RAYS table) == ray walk
    AIR = 'attack_in_ray'
    c_air = '__CPROVER_requires(sq < 64 && ray < 8)\n__CPROVER_assigns()\n__CPROVER_ensures(__CPROVER_return_value == spec_walk_ray((int)ray, sq, blockers))\n'
    RAYSPRE = '  for (uint32_t d = 0; d < 8; d++) for (uint32_t s = 0; s < 64; s++) RAYS[d][s] = spec_ray((int)d, s);   /* C11: geom/rays_masks */\n'
    h = ND + 'void h_air(void) {\n' + RAYSPRE + '  uint32_t s = nondet_u32(), r = nondet_u32(); uint64_t o = nondet_u64(); %s(s, r, o);' % AIR + CANARY + '}\n'
    out.append(Job('leaf/attack_in_ray', MTUS, [AIR], h, 'h_air', contracts={AIR: c_air}, enforce=AIR, spec=['movegen.h'], timeout=900,
                   note='movegen.cpp attack_in_ray == walking the ray to the first blocker, all squares, rays and occupancies'))
    OCC = '(pos->_by_color_bb[0] | pos->_by_color_bb[1])'
    for side in (0, 1):
        sn = ('white', 'black')[side]
        # ---- pinned pawn
        fn = 'generate_pinned_pawn_moves_%d' % side
        c = ('__CPROVER_requires(from < 64 && (from >> 3) >= 1 && (from >> 3) <= 6 && ray < 8 && pos->_enpassant_square <= 64 && %s)\n' % (LISTREQ % 16) +
             '__CPROVER_assigns(g_cnt)\n'
             '__CPROVER_ensures(g_cnt == __CPROVER_old(g_cnt) + spec_pinned_pawn_count(%d, from, (int)ray, %s, pos->_by_color_bb[%d], pos->_enpassant_square, G_M))\n' % (side, OCC, 1 - side) + LISTENS % 16)
        h = ND + BUF + ('void h_pp(void) {\n' + HSETUP + '  struct Position P = nondet_Position(); uint32_t f = nondet_u32(), r = nondet_u32(); uint64_t t = nondet_u64(); %s(f, r, &P, t, l);' % fn + CANARY + '}\n')
        kw = dict(common); kw['loop_contracts'] = False; kw['expect'] = []
        out.append(Job('leaf/generate_pinned_pawn_moves_' + sn, MTUS, [fn], h, 'h_pp', contracts={fn: c}, enforce=fn, timeout=900,
                       note='moves of a pawn pinned along a ray: only moves that stay on the pin line (captures on the diagonal, pushes on the file), promotions on the last rank', **kw))
        # ---- pinned piece (decodes the pin record)
        fp = 'generate_pinned_piece_moves_%d' % side
        KIND, FROM, RAY = '((pin >> 6) & 7)', '(pin & 63)', '((pin >> 9) & 7)'
        ALLOWED = '(%s == 5 || (%s == 3 && (%s & 1) == 0) || (%s == 4 && (%s & 1) == 1))' % (KIND, KIND, RAY, KIND, RAY)
        c = ('__CPROVER_requires(%s >= 1 && %s <= 5 && (%s != 1 || ((%s >> 3) >= 1 && (%s >> 3) <= 6)) && (pin >> 12) == 0 && pos->_enpassant_square <= 64 && %s)\n' % (KIND, KIND, KIND, FROM, FROM, LISTREQ % 64) +
             '__CPROVER_assigns(g_cnt)\n'
             '__CPROVER_ensures(g_cnt == __CPROVER_old(g_cnt) + (%s == 2 ? 0 : (%s == 1 ? spec_pinned_pawn_count(%d, %s, (int)%s, %s, pos->_by_color_bb[%d], pos->_enpassant_square, G_M) : '
             '((%s && %s && %s == %s && (((spec_walk_line((int)%s, %s, %s) & target) >> %s) & 1)) ? 1 : 0))))\n' % (KIND, KIND, side, FROM, RAY, OCC, 1 - side, ALLOWED, PLAIN, GF, FROM, RAY, FROM, OCC, GT) + LISTENS % 64)
        lc = {(fp, 1): bitloop_contract('%s && %s == from' % (PLAIN, GF))}
        h = ND + BUF + ('void h_pc(void) {\n' + RAYSPRE + HSETUP + '  struct Position P = nondet_Position(); uint32_t pin = nondet_u32(); uint64_t t = nondet_u64(); %s(pin, &P, t, l);' % fp + CANARY + '}\n')
        out.append(Job('leaf/generate_pinned_piece_moves_' + sn, MTUS, [fp], h, 'h_pc', contracts={fp: c}, loopc=lc, enforce=fp, timeout=1500,
                       route='loop contract (unbounded)', note='moves of a pinned piece: none for a knight, the pinned-pawn table for a pawn, sliders along the pin line inside the target mask', **common))
        # ---- en passant (not-pinned pawns)
        fe = 'generate_enpassant_%d' % side
        KSQ = '$1->_piece_position[%d][0]' % (6 + 6 * side)
        ERQ = '($1->_by_color_bb[%d] & ($1->_by_piece_kind_bb[4] | $1->_by_piece_kind_bb[5]))' % (1 - side)
        c = ('__CPROVER_requires($5 < 64 && ($5 >> 3) == %d && %s < 64 && %s)\n' % (5 if side == 0 else 2, KSQ, (LISTREQ % 8).replace('list', '$6')) +
             '__CPROVER_assigns(g_cnt)\n'
             '__CPROVER_ensures(g_cnt == __CPROVER_old(g_cnt) + spec_ep_count(%d, %s, %s, %s, $2, $3, $4, $5, G_M))\n' % (side, OCC.replace('pos', '$1'), KSQ, ERQ) + (LISTENS % 8).replace('list', '$6'))
        h = ND + BUF + ('void h_ep(void) {\n' + RAYSPRE + HSETUP + '  struct Position P = nondet_Position(); uint64_t a = nondet_u64(), b = nondet_u64(), c = nondet_u64(); uint32_t e = nondet_u32(); %s(&P, a, b, c, e, l);' % fe + CANARY + '}\n')
        kw = dict(common); kw['loop_contracts'] = False; kw['expect'] = []
        out.append(Job('leaf/generate_enpassant_' + sn, MTUS, [fe], h, 'h_ep', contracts={fe: c}, enforce=fe, timeout=900,
                       note='en passant captures by not-pinned pawns: resolves the check if any, and the rank-exposure test when a single pawn captures', **kw))
        # ---- pins: one contract per (side, ray) instantiation of generate_pin_in_ray, then generate_pins over those contracts
        KS = '$1->_piece_position[%d][0]' % (6 + 6 * side)
        OWN, EQ_, ER_, EB_ = ('$1->_by_color_bb[%d]' % side, '($1->_by_color_bb[%d] & $1->_by_piece_kind_bb[5])' % (1 - side),
                              '($1->_by_color_bb[%d] & $1->_by_piece_kind_bb[4])' % (1 - side), '($1->_by_color_bb[%d] & $1->_by_piece_kind_bb[3])' % (1 - side))
        pin_contracts = {}
        for ray in range(8):
            fr = 'generate_pin_in_ray_%d_%d' % (side, ray)
            Q = 'spec_pin_sq(%d, %s, $4, %s, %s, %s, %s)' % (ray, KS, OWN, EQ_, ER_, EB_)
            c = ('__CPROVER_requires(%s < 64 && __CPROVER_same_object($2, PINS) && __CPROVER_POINTER_OFFSET($2) %% 4 == 0 && __CPROVER_POINTER_OFFSET($2) + 4 <= 64 && __CPROVER_rw_ok($3, 8))\n' % KS +
                 '__CPROVER_assigns(*$2, *$3)\n'
                 '__CPROVER_ensures(%s == 64 ==> (__CPROVER_return_value == __CPROVER_old($2) && *$3 == __CPROVER_old(*$3)))\n' % Q +
                 '__CPROVER_ensures(%s != 64 ==> (__CPROVER_return_value == __CPROVER_old($2) + 1 && *$3 == (__CPROVER_old(*$3) | (1ULL << %s)) && '
                 '*__CPROVER_old($2) == ((%du << 9) | (sp_kind8($1->_board[%s]) << 6) | %s)))\n' % (Q, Q, ray, Q, Q))
            pin_contracts[fr] = c
            h = ND + ('void h_pr(void) {\n' + RAYSPRE + '  struct Position P = nondet_Position(); uint64_t pinned = nondet_u64(), bl = nondet_u64(); uint32_t k = nondet_u32(); __CPROVER_assume(k < 16);\n'
                      '  %s(&P, PINS + k, &pinned, bl);' % fr + CANARY + '}\n')
            out.append(Job('leaf/generate_pin_in_ray_%s_%d' % (sn, ray), MTUS, [fr], h, 'h_pr', contracts={fr: c}, enforce=fr, spec=['movegen.h'], force_globals=['PINS'],
                           pre_text='static inline uint32_t sp_kind8(uint32_t pc) { return pc == 0 ? 0u : (pc - 1u) % 6u + 1u; }\n', timeout=1200,
                           note='pin on ray %d: first piece on the ray from the king is an own piece and the second an enemy slider of the matching kind (lsb/msb of the masked ray == walking the ray)' % ray))
        # ---- forbidden squares (attacked with the own king x-rayed out), point-wise at the ghost square G_F1 (the contract holds for every value
        #      of the ghost, which the function never reads: callers may instantiate it at several squares).  Loop contracts over the four piece lists;
        #      both directions go through ghost witnesses because invariants may not call functions:
        #        G_FBV   == spec_forbidden_bit(G_F1)                      soundness:    bit set            ==> G_FBV
        #        G_CAUSE == one attacker (kind, square) if there is any   completeness: its list slot done  ==> bit set
        #        G_WI    == the slot of that attacker in its piece list (exists by the list invariant)
        ff = 'forbidden_squares_%d' % side
        E = 1 - side
        EB = lambda k: '($1->_by_color_bb[%d] & $1->_by_piece_kind_bb[%d])' % (E, k)
        FA = '$1->_piece_position[%d][0], ($1->_by_color_bb[0] | $1->_by_color_bb[1]), %s, %s, %s, %s, %s, %s' % (6 + 6 * side, EB(1), EB(2), EB(3), EB(4), EB(5), EB(6))
        c = ('__CPROVER_requires(wf_board($1) && wf_lists($1) && $1->_piece_count[6] == 1 && $1->_piece_count[12] == 1 && G_F1 < 64 && G_F2 < 64 && G_F3 < 64)\n'
             '__CPROVER_requires(G_FBV == spec_forbidden_bit(%d, G_F1, %s))\n' % (side, FA) +
             '__CPROVER_requires(G_CAUSE == spec_fb_cause(%d, G_F1, %s))\n' % (side, FA) +
             '__CPROVER_requires(G_WI == spec_slot_of($1, (G_CAUSE >> 8) + %d, G_CAUSE & 255))\n' % (6 * E) +
             '__CPROVER_assigns()\n'
             '__CPROVER_ensures(((__CPROVER_return_value >> G_F1) & 1) == spec_forbidden_bit(%d, G_F1, %s))\n' % (side, FA))
        lc = {}
        for li, K in enumerate((2, 3, 4, 5)):
            cnt = 'pos->_piece_count[%d]' % (K + 6 * E)
            lc[(ff, li + 1)] = ['__CPROVER_assigns(i, bb)', '__CPROVER_loop_invariant(0 <= i && i <= %s && %s <= 10)' % (cnt, cnt),
                                '__CPROVER_loop_invariant(((bb >> G_F1) & 1) ==> G_FBV)',
                                '__CPROVER_loop_invariant((((G_CAUSE >> 8) == 1) || ((G_CAUSE >> 8) >= 2 && (G_CAUSE >> 8) < %d) || ((G_CAUSE >> 8) == %d && G_WI < i)) ==> ((bb >> G_F1) & 1))' % (K, K),
                                '__CPROVER_decreases(%s - i)' % cnt]
        SLOT = ('int spec_slot_of(const struct Position *p, uint32_t pc, uint32_t sq)\n'
                '{ int r = -1; for (int k = 0; k < 10; k++) if (pc <= 12 && k < p->_piece_count[pc] && p->_piece_position[pc][k] == sq) r = k; return r; }\n')
        h = ND + SLOT + ('void h_fb(void) { for (uint32_t s = 0; s < 64; s++) { KNIGHT_MASK[s] = spec_knight(s); KING_MASK[s] = spec_king(s); }\n'
                         '  struct Position P = nondet_Position(); G_F1 = nondet_u32(); G_F2 = nondet_u32(); G_F3 = nondet_u32(); G_FBV = nondet_bool(); G_CAUSE = nondet_u32(); G_WI = nondet_int(); %s(&P);' % ff + CANARY + '}\n')
        kw = dict(common)
        kw.update(spec=['poswf_decl.h', 'movegen.h'], post_spec=['poswf.h'], pre_text=EMIT_PRE + 'uint32_t G_F1, G_F2, G_F3, G_CAUSE; _Bool G_FBV; int G_WI;\nstruct Position; int spec_slot_of(const struct Position *p, uint32_t pc, uint32_t sq);\n')
        out.append(Job('leaf/forbidden_squares_' + sn, MTUS, [ff], h, 'h_fb', contracts=dict(SLP, **{ff: c}), nobody=list(SLP), enforce=ff, replace=list(SLP), loopc=lc,
                       timeout=3600, backend='cadical', tier='thorough', gb=8, route='loop contracts (unbounded) over the four enemy piece lists',
                       note='squares attacked by the enemy with the own king lifted off (union over the enemy piece lists) == "some enemy piece attacks the square", at a ghost square', **kw))
        # ---- checkers
        fc = 'checkers_%d' % side
        K = 'position->_piece_position[%d][0]' % (6 + 6 * side)
        EN = lambda k: '(position->_by_color_bb[%d] & position->_by_piece_kind_bb[%d])' % (1 - side, k)
        OCCP = '(position->_by_color_bb[0] | position->_by_color_bb[1])'
        PAWNSRC = '(spec_shift_bit_set(%s, %d))' % (K, side)
        c = ('__CPROVER_requires(%s < 64)\n__CPROVER_assigns()\n' % K +
             '__CPROVER_ensures(__CPROVER_return_value == ((spec_pawn_attackers_of(%s, %d) & %s) | (spec_knight(%s) & %s) | (spec_bishop_walk(%s, %s) & (%s | %s)) | (spec_rook_walk(%s, %s) & (%s | %s))))\n'
             % (K, side, EN(1), K, EN(2), K, OCCP, EN(3), EN(5), K, OCCP, EN(4), EN(5)))
        h = ND + ('void h_ck(void) { for (uint32_t s = 0; s < 64; s++) KNIGHT_MASK[s] = spec_knight(s);\n  struct Position P = nondet_Position(); %s(&P);' % fc + CANARY + '}\n')
        out.append(Job('leaf/checkers_' + sn, MTUS, [fc], h, 'h_ck', contracts=dict(SL, **{fc: c}), nobody=list(SL), enforce=fc, replace=['slider_attack_3', 'slider_attack_4'],
                       spec=['movegen.h'], timeout=900, note='checkers(side) == enemy pieces attacking the king square (pawn, knight, bishop/queen and rook/queen rays)'))
    for j in out:
        for k, v in j.contracts.items():
            if j.enforce and k == j.enforce[0]:
                LEAF[k] = v
    LEAF.update(SLC)
    out += composition_jobs(LEAF)
    out += lemma_jobs(tier, seed)
    # longest groups first (the runner starts groups in list order)
    rank = lambda j: 0 if j.name.startswith('compose/generate') else 1 if j.name.startswith(('compose/assembly', 'leaf/forbidden')) else 2 if j.name.startswith('theorem/') else 3
    out.sort(key=rank)
    return out


# ------------------------------------------------------------------------------------------------ composition
def composition_jobs(leaf_contracts):
    """generate_legal_moves<side> under contract, every leaf by contract: the emitted moves are exactly those of the mask-glue
    predicate spec_alg_core for EVERY value of the geometric sub-queries (ghosts G_AG: checkers, pinned square per ray, attack set of
    the moving piece, forbidden bits at the squares the ghost move needs, king-checker segment).

    Leaves whose proved contract mentions a geometric spec function are used here in their ghost-instantiated form: the proved
    contract holds for the true value of the sub-query, the composition holds for every value, hence for the true one (see
    `assembly` below, which also discharges the typing facts assumed of the ghost values)."""
    out = []
    for side in (0, 1):
        sn = ('white', 'black')[side]
        fn = 'generate_legal_moves_%d' % side
        KSQ = '$1->_piece_position[%d][0]' % (6 + 6 * side)
        OCC1 = '($1->_by_color_bb[0] | $1->_by_color_bb[1])'
        cs = {}
        for k in ['generate_pawn_moves_%d' % side, 'generate_enpassant_%d' % side, 'generate_king_moves', 'generate_pinned_piece_moves_%d' % side]:
            cs[k] = leaf_contracts[k]                      # used exactly as proved
        # (1) checkers: value abstracted
        cs['checkers_%d' % side] = '__CPROVER_requires(position->_piece_position[%d][0] < 64)\n__CPROVER_assigns()\n__CPROVER_ensures(__CPROVER_return_value == G_AG.checkers)\n' % (6 + 6 * side)
        # (2) forbidden squares: bits at the three ghost squares abstracted (same precondition as the proved contract)
        pre_fb = leaf_contracts['forbidden_squares_%d' % side].split('\n')[0]
        cs['forbidden_squares_%d' % side] = (pre_fb + '\n__CPROVER_assigns()\n'
                                             '__CPROVER_ensures(((__CPROVER_return_value >> G_F1) & 1) == G_AG.fb_a && ((__CPROVER_return_value >> G_F2) & 1) == G_AG.fb_b && ((__CPROVER_return_value >> G_F3) & 1) == G_AG.fb_t)\n')
        # (3) per-ray pin: pinned square abstracted (the proved contract is about the blockers handed in; they must be the occupancy)
        for ray in range(8):
            fr = 'generate_pin_in_ray_%d_%d' % (side, ray)
            Q = 'G_AG.pin[%d]' % ray
            cs[fr] = ('__CPROVER_requires(%s < 64 && __CPROVER_same_object($2, PINS) && __CPROVER_POINTER_OFFSET($2) %% 4 == 0 && __CPROVER_POINTER_OFFSET($2) + 4 <= 64 && __CPROVER_rw_ok($3, 8) && $4 == %s)\n' % (KSQ, OCC1) +
                      '__CPROVER_assigns(*$2, *$3)\n'
                      '__CPROVER_ensures(__CPROVER_same_object(__CPROVER_return_value, PINS))\n'
                      '__CPROVER_ensures(%s == 64 ==> (__CPROVER_return_value == __CPROVER_old($2) && *$3 == __CPROVER_old(*$3)))\n' % Q +
                      '__CPROVER_ensures(%s != 64 ==> (__CPROVER_return_value == __CPROVER_old($2) + 1 && *$3 == (__CPROVER_old(*$3) | (1ULL << %s)) && '
                      '*__CPROVER_old($2) == ((%du << 9) | (sp_kind8($1->_board[%s]) << 6) | %s)))\n' % (Q, Q, ray, Q, Q))
        # (4) moves of one not-pinned piece: attack set abstracted (it only matters when the piece stands on the ghost move's origin)
        for k in (2, 3, 4, 5):
            cs['generate_piece_moves_%d' % k] = ('__CPROVER_requires(from < 64 && %s)\n' % (LISTREQ % 112) + '__CPROVER_assigns(g_cnt)\n'
                                                 '__CPROVER_ensures(g_cnt == __CPROVER_old(g_cnt) + ((%s && %s == from && (((G_AG.att[%d] & target) >> %s) & 1)) ? 1 : 0))\n' % (PLAIN, GF, k, GT) + LISTENS % 112)
        leafs = list(cs)
        H = 56 * side
        PINOK = ' && '.join('(G_AG.pin[%d] == 64 || (G_AG.pin[%d] < 64 && G_AG.pin[%d] != %s && (($1->_by_color_bb[%d] >> G_AG.pin[%d]) & 1)))' % (r, r, r, KSQ, side, r) for r in range(8))
        c = ('__CPROVER_requires(wf_pos($1) && $1->_current_side == %d && __builtin_popcountll($1->_by_color_bb[%d] & $1->_by_piece_kind_bb[1]) <= 8)\n' % (side, side) +
             '__CPROVER_requires(%s)\n' % ' && '.join('__builtin_popcountll($1->_by_color_bb[%d] & $1->_by_piece_kind_bb[%d]) <= 10' % (side, k) for k in (2, 3, 4, 5)) +
             '__CPROVER_requires(__CPROVER_same_object($2, g_lo) && __CPROVER_POINTER_OFFSET($2) == 0 && g_cap_bytes == 65536 && g_cnt >= 0 && g_cnt < 900 && (G_M >> 17) == 0)\n'
             '__CPROVER_requires(G_F3 == %s && G_F1 == alg_castle_sq_a(%d, %s) && G_F2 == alg_castle_sq_b(%d, %s))\n' % (GT, side, GC, side, GC) +
             '__CPROVER_requires(%s)\n' % PINOK +
             '__CPROVER_requires((G_AG.checkers & ~$1->_by_color_bb[%d]) == 0)\n' % (1 - side) +
             '__CPROVER_requires(G_AG.checkers == 0 || LINES[%s][alg_lsb(G_AG.checkers)] == G_AG.seg)\n' % KSQ +
             '__CPROVER_assigns(g_cnt, __CPROVER_object_whole(PINS))\n'
             '__CPROVER_ensures(g_cnt == __CPROVER_old(g_cnt) + spec_alg_core_pos($1, %d, G_M))\n' % side)
        lc = {}
        if COMPOSE_LOOPC:
            for i, (var, k) in enumerate((('not_pinned_knights', 2), ('not_pinned_bishops', 3), ('not_pinned_rooks', 4), ('not_pinned_queens', 5))):
                lc[(fn, i + 1)] = ['__CPROVER_assigns(%s, list, g_cnt)' % var,
                                   '__CPROVER_loop_invariant((%s & ~__CPROVER_loop_entry(%s)) == 0)' % (var, var),
                                   '__CPROVER_loop_invariant(__CPROVER_same_object(list, g_lo) && __CPROVER_POINTER_OFFSET(list) >= __CPROVER_POINTER_OFFSET(__CPROVER_loop_entry(list)) && '
                                   '__CPROVER_POINTER_OFFSET(list) <= __CPROVER_POINTER_OFFSET(__CPROVER_loop_entry(list)) + 112 * __builtin_popcountll(__CPROVER_loop_entry(%s) & ~%s))' % (var, var),
                                   '__CPROVER_loop_invariant(g_cnt == __CPROVER_loop_entry(g_cnt) + (((((__CPROVER_loop_entry(%s) & ~%s) >> %s) & 1) && %s && (((G_AG.att[%d] & target) >> %s) & 1)) ? 1 : 0))' % (var, var, GF, PLAIN, k, GT),
                                   '__CPROVER_decreases(%s)' % var]
        for ci, cname in enumerate(CCLASS):
            h = ND + ('#include <stdlib.h>\nAlgGhost nondet_AlgGhost(void);\n' + ALGPOS +
                      'void h_gl(void) {\n'
                      '  verif_restore_statics();\n'
                      '  CASTLING_PATHS[1] = 0x60ULL; CASTLING_PATHS[2] = 0x0CULL; CASTLING_PATHS[4] = 0x6000000000000000ULL; CASTLING_PATHS[8] = 0x0C00000000000000ULL;   /* C11: geom/rays_masks */\n'
                      '  struct Position P = nondet_Position(); W_P = P;\n'
                      '  uint32_t *BUF = malloc(65536); __CPROVER_assume(BUF != 0);   /* the move list: never read or written here (stores are projected to the capacity assertion) */\n'
                      '  g_lo = BUF; g_cap_bytes = 65536; G_M = nondet_u32(); g_cnt = nondet_int(); W_m = G_M; G_AG = nondet_AlgGhost();\n'
                      '  G_F1 = nondet_u32(); G_F2 = nondet_u32(); G_F3 = nondet_u32();\n'
                      '  __CPROVER_assume(compose_class(&P, %d, G_M) == %d);   /* case split on the ghost move: %s */\n' % (side, ci, cname) +
                      '  %s(&P, BUF);' % fn + CANARY + '}\n')
            stubs = [k for k in leafs if '__CPROVER_assigns()' not in cs[k]]     # leaves that write (ghost counter, pin records): stub form, see tools/cxx2c.py stub_text
            out.append(Job('compose/generate_legal_moves_%s/%s' % (sn, cname), MTUS, [fn], h, 'h_gl', contracts=dict(cs, **{fn: c}), nobody=leafs, enforce=fn, replace=leafs, stubs=stubs, loopc=lc, loop_contracts=bool(lc), expect=(['loop_invariant_step'] if lc else []),
                           hooks=HOOKS, spec=['poswf_decl.h', 'movegen.h'], post_spec=['poswf.h'], pre_text=COMPOSE_PRE, force_globals=['PINS'],
                           unwindset=loops_unwind([(fn, 11)]), timeout=(3000 if cname in QUICK_CLASSES else 9000), canary=(cname == 'king'), gb=5, backend='cadical', tier=('quick' if cname in QUICK_CLASSES else 'thorough'),
                           route='closed-by-complete-unwinding(11): at most 10 pieces of a kind (piece-list capacity, precondition), at most 8 pins',
                           note='generate_legal_moves<%s> emits exactly the moves of the mask-glue predicate spec_alg_core, each once, for every value of the geometric sub-queries the leaf contracts allow - every leaf generator by contract; ghost move class: %s' % (sn, cname)))
    # assembly: for a well-formed Position and its mailbox abstraction, the square sets read off the bitboards are the sets of the board, the true values of
    # the sub-queries satisfy what the composition assumes of its ghosts, and LINES holds the segment the composition assumes - hence
    # composition[G := true values] gives  engine == spec_alg_count(abstraction, m)
    h = ND + ('SPos nondet_SPos(void);\n' + ALGPOS +
              'void h_as(void) {\n'
              '  struct Position P = nondet_Position(); uint32_t m = nondet_u32(); SPos S0; __CPROVER_assume(wf_pos(&P)); sp_of(&P, &S0);\n'
              '  AlgSets A = alg_sets_of_pos(&P, P._current_side), B = spec_alg_sets(&S0);\n'
              '  __CPROVER_assert(A.own == B.own && A.enemy == B.enemy && A.k == B.k && A.side == B.side && A.rights == B.rights && A.ep == B.ep, "sets read off the bitboards == sets of the mailbox board (colours, king square, state)");\n'
              '  __CPROVER_assert(A.kind[1] == B.kind[1] && A.kind[2] == B.kind[2] && A.kind[3] == B.kind[3] && A.kind[4] == B.kind[4] && A.kind[5] == B.kind[5] && A.kind[6] == B.kind[6], "sets read off the bitboards == sets of the mailbox board (kinds)");\n'
              '  AlgGhost T = spec_alg_true_ghost(A, m);\n'
              '  for (int r = 0; r < 8; r++) __CPROVER_assert(T.pin[r] == 64 || (T.pin[r] < 64 && T.pin[r] != A.k && ((A.own >> T.pin[r]) & 1)), "true pinned square: none, or an own piece other than the king");\n'
              '  __CPROVER_assert((T.checkers & ~A.enemy) == 0, "true checkers are enemy pieces");\n'
              '  __CPROVER_assert(A.k < 64, "the king square read from the piece list is on the board");' + CANARY + '}\n')
    out.append(Job('compose/assembly', MTUS, ['checkers_0'], h, 'h_as', gb=6, spec=['poswf_decl.h', 'pos.h', 'movegen.h'], post_spec=['poswf.h'], timeout=1800,
                   note='assembly lemma: bitboard sets == mailbox sets for well-formed positions; the true geometric values satisfy the typing facts the composition assumes of its ghosts'))
    return out


import os
COMPOSE_LOOPC = bool(os.environ.get('VERIF_C01_LOOPC'))
QUICK_CLASSES = ()     # every composition class takes 15-60 min (CaDiCaL): thorough tier; the quick tier runs the leaves, the assembly lemma and the theorem squares
CCLASS = ['castling', 'king', 'pawn', 'knight', 'bishop', 'rook', 'queen', 'other']
COMPOSE_PRE = EMIT_PRE + ('#define HAVE_G_AG 1\nuint32_t G_F1, G_F2, G_F3; AlgGhost G_AG; struct Position W_P; uint32_t W_m;\n'
                          'static inline uint32_t sp_kind8(uint32_t pc) { return pc == 0 ? 0u : (pc - 1u) % 6u + 1u; }\n'
                          'struct Position; int spec_alg_core_pos(const struct Position *p, uint32_t side, uint32_t m);\n')
# the square sets of spec_alg_core read off the engine's bitboards (needs struct Position: placed in the harness text)
ALGPOS = r"""
AlgSets alg_sets_of_pos(const struct Position *p, uint32_t side)
{
  AlgSets S;
  S.own = p->_by_color_bb[side & 1]; S.enemy = p->_by_color_bb[1 - (side & 1)];
  S.kind[0] = 0; for (uint32_t k = 1; k <= 6; k++) S.kind[k] = p->_by_piece_kind_bb[k];
  S.k = p->_piece_position[6 + 6 * (side & 1)][0]; S.side = side; S.rights = p->_castling_rights; S.ep = p->_enpassant_square;
  return S;
}
/* case split of the composition proof on the ghost move: 0 castling code set, 1 from the king square, 2..6 from an own pawn / knight / bishop / rook / queen, 7 anything else */
uint32_t compose_class(const struct Position *p, uint32_t side, uint32_t m)
{
  if (spec_move_ccode(m) != 0) return 0;
  AlgSets S = alg_sets_of_pos(p, side); uint32_t f = spec_move_from(m);
  if (f == S.k) return 1;
  uint32_t kd = alg_kind_at(S, f);
  if (((S.own >> f) & 1) && kd >= 1 && kd <= 5) return kd + 1;
  return 7;
}
#ifdef HAVE_G_AG
int spec_alg_core_pos(const struct Position *p, uint32_t side, uint32_t m) { return spec_alg_core(alg_sets_of_pos(p, side), G_AG, m); }
#endif
"""


# replay of a counterexample position on the real generator: every candidate move is compared with the rule oracle
REPLAY_GEN = {'needs': ['W_S.side'], 'body': '''
  SPos S; memset(&S, 0, sizeof S);
  for (int s = 0; s < 64; s++) S.board[s] = (sp_pc)W_S_board[s];
  S.side = (uint32_t)W_S_side; S.rights = (uint32_t)W_S_rights; S.ep = (uint32_t)W_S_ep;
  std::string fen; const char* pcs = ".PNBRQKpnbrqk";
  for (int r = 7; r >= 0; r--) { int e = 0; for (int f = 0; f < 8; f++) { int pc = S.board[r * 8 + f]; if (!pc) e++; else { if (e) fen += char('0' + e); e = 0; fen += pcs[pc]; } } if (e) fen += char('0' + e); if (r) fen += '/'; }
  fen += S.side ? " b " : " w "; std::string cr; if (S.rights & 1) cr += 'K'; if (S.rights & 2) cr += 'Q'; if (S.rights & 4) cr += 'k'; if (S.rights & 8) cr += 'q'; fen += cr.empty() ? "-" : cr;
  fen += ' '; if (S.ep == 64) fen += '-'; else { fen += char('a' + (S.ep & 7)); fen += char('1' + (S.ep >> 3)); } fen += " 0 1";
  Position Q(fen);
  Move list[512]; Move* end = generate_moves(Q, Q.color(), list);
  int bad = 0;
  auto emitted = [&](uint32_t m) { int n = 0; for (Move* it = list; it != end; ++it) if (*it == m) n++; return n; };
  for (uint32_t code = 1; code <= 2; code++) { uint32_t m = code << 15; int n = emitted(m), l = sp_legal(&S, m); if (n != l) { printf("castling code %u: generated %d time(s), legal %d\\n", code, n, l); bad++; } }
  for (uint32_t f = 0; f < 64; f++) for (uint32_t t = 0; t < 64; t++) for (uint32_t pr = 0; pr <= 5; pr++) { if (pr == 1) continue; uint32_t m = spec_move_pack(f, t, pr, 0);
    int n = emitted(m), l = sp_legal(&S, m); if (n != l) { if (bad < 8) printf("move %c%c%c%c promo %u: generated %d time(s), legal under the rules %d\\n", 'a' + (f & 7), '1' + (f >> 3), 'a' + (t & 7), '1' + (t >> 3), pr, n, l); bad++; } }
  printf("position %s: %d generated moves, %d disagreement(s) with the rules\\n", fen.c_str(), (int)(end - list), bad);
  if (bad) printf("CONFIRMED generate_moves differs from the legal move set\\n"); else printf("NOT-REPRODUCED\\n");
''', 'access': ''}
REPLAY_GEN_DECL = '#include <cstring>\n#include "movegen.h"\n'


# ------------------------------------------------------------------------------------------------ the legality theorem (spec side)
LEMMA_PRE = '''
/* the e.p. square stems from a double push that was itself legal: with the pawn back on its origin square the side that is now to
 * move (then NOT to move) was not in check */
static inline _Bool sp_ep_history_ok(const SPos *P)
{
  if (P->ep == SP_NONE) return 1;
  SPos Q = *P; uint32_t e = P->ep;
  uint32_t now = P->side == 0 ? e - 8 : e + 8, origin = P->side == 0 ? e + 8 : e - 8;
  Q.board[origin] = Q.board[now]; Q.board[now] = 0;
  return !sp_in_check(Q.board, P->side);
}
static inline uint32_t alg_class(const SPos *P, uint32_t m)
{ if (spec_move_ccode(m) != 0) return 0; uint32_t k = sp_kind(P->board[spec_move_from(m)]); return k == 6 ? 1 : (k == 1 ? 2 : (k == 2 ? 3 : (k == 3 ? 4 : (k == 4 ? 5 : (k == 5 ? 6 : 7))))); }
'''
LCLASS = ['castling', 'king', 'pawn', 'knight', 'bishop', 'rook', 'queen', 'nopiece']
QUICK_THEOREM = ('castling', 'king', 'nopiece')    # 2-6 min each; knight / pawn / bishop / rook / queen take 8-15 min: thorough tier


def lemma_jobs(tier, seed):
    """spec_alg_count(P, m) == [sp_legal(P, m)] for every legal position: split on the king square of the side to move and the mover class."""
    import random
    rnd = random.Random(seed)
    squares = list(range(64))
    quick_sq = set(rnd.sample(squares, 1))
    out = []
    for ksq in squares:
        for ci, cname in enumerate(LCLASS):
            h = ('uint32_t nondet_u32(void); SPos nondet_SPos(void);\nSPos W_S; uint32_t W_m;\n'
                 'void h_l(void) { SPos P = nondet_SPos(); uint32_t m = nondet_u32();\n'
                 '  __CPROVER_assume(sp_state_ok(&P) && !sp_in_check(P.board, 1 - P.side) && sp_ep_history_ok(&P) && (m >> 17) == 0);\n'
                 '  __CPROVER_assume(sp_king_sq(P.board, P.side) == %d && alg_class(&P, m) == %d);\n' % (ksq, ci) +
                 '  W_S = P; W_m = m;\n'
                 '  __CPROVER_assert(spec_alg_count(&P, m) == (sp_legal(&P, m) ? 1 : 0), "check-mask / pin algorithm predicate == legality under the rules of chess");' + CANARY + '}\n')
            out.append(Job('theorem/k%02d_%s' % (ksq, cname), tu('types.cpp'), ['from'], h, 'h_l', spec=['pos.h', 'movegen.h'], pre_text=LEMMA_PRE, timeout=3000, gb=5,
                           tier='quick' if (ksq in quick_sq and cname in QUICK_THEOREM) else 'thorough', canary=(cname == 'king'), replay=REPLAY_GEN,
                           note='legality theorem, king of the side to move on square %d, mover class %s (spec-side lemma: no engine code in the query)' % (ksq, cname)))
            out[-1].replay_decl = REPLAY_GEN_DECL
    return out
