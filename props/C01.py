"""C01 - legal move generation is exact (work in progress: leaf generators under contract in ghost-move form)."""
from runner import Job, tu
from props.mgcommon import *
from props.C11 import loops_unwind
from props.C15 import SL

LEVEL = 'proof'
EXPLANATION = 'leaf generators under contract (ghost move counter, loop contracts)'
ASSUMPTIONS = []
NOT_COVERED = []

LISTREQ = '__CPROVER_same_object(list, g_lo) && __CPROVER_POINTER_OFFSET(list) + %d <= g_cap_bytes && g_cnt >= 0 && g_cnt < 1000 && (G_M >> 17) == 0'
LISTENS = '__CPROVER_ensures(__CPROVER_same_object(__CPROVER_return_value, g_lo) && __CPROVER_POINTER_OFFSET(__CPROVER_return_value) <= __CPROVER_POINTER_OFFSET(__CPROVER_old(list)) + %d)\n'
BUF = 'uint32_t BUF[512];\n'
HSETUP = '  g_lo = BUF; g_cap_bytes = sizeof(BUF); G_M = nondet_u32(); g_cnt = nondet_int(); uint32_t off = nondet_u32(); __CPROVER_assume(off < 512); uint32_t *l = BUF + off;\n'


def jobs(tier, seed):
    out = []
    common = dict(spec=['movegen.h'], pre_text=EMIT_PRE, hooks=HOOKS, loop_contracts=True, expect=['loop_invariant_step'])
    # ---- king moves
    KM = 'generate_king_moves'
    c = ('__CPROVER_requires(from < 64 && %s)\n' % (LISTREQ % 32) +
         '__CPROVER_assigns(g_cnt)\n'
         '__CPROVER_ensures(g_cnt == __CPROVER_old(g_cnt) + ((%s && %s == from && (((spec_king(from) & ~not_allowed) >> %s) & 1)) ? 1 : 0))\n' % (PLAIN, GF, GT) +
         LISTENS % 32)
    lc = {(KM, 1): bitloop_contract('%s && %s == from' % (PLAIN, GF))}
    h = ND + BUF + ('void h_k(void) { for (uint32_t s = 0; s < 64; s++) KING_MASK[s] = spec_king(s);\n' + HSETUP +
                    '  uint32_t f = nondet_u32(); uint64_t na = nondet_u64(); %s(f, na, l);' % KM + CANARY + '}\n')
    out.append(Job('leaf/generate_king_moves', MTUS, [KM], h, 'h_k', contracts={KM: c}, loopc=lc, enforce=KM, timeout=900,
                   route='loop contract (unbounded)', note='king moves: exactly the plain moves from `from` to king-step squares that are not forbidden, each once; at most 8 moves', **common))
    # ---- knight / bishop / rook / queen moves of one piece
    for k, kn, att in ((2, 'knight', 'spec_knight(from)'), (3, 'bishop', 'spec_bishop_walk(from, OCC)'), (4, 'rook', 'spec_rook_walk(from, OCC)'), (5, 'queen', 'spec_queen_walk(from, OCC)')):
        fn = 'generate_piece_moves_%d' % k
        A = att.replace('OCC', '(pos->_by_color_bb[0] | pos->_by_color_bb[1])')
        c = ('__CPROVER_requires(from < 64 && %s%s)\n' % (LISTREQ % 112, '') +
             '__CPROVER_assigns(g_cnt)\n'
             '__CPROVER_ensures(g_cnt == __CPROVER_old(g_cnt) + ((%s && %s == from && (((%s & target) >> %s) & 1)) ? 1 : 0))\n' % (PLAIN, GF, A, GT) +
             LISTENS % 112)
        lc = {(fn, 1): bitloop_contract('%s && %s == from' % (PLAIN, GF))}
        h = ND + BUF + ('void h_p(void) { for (uint32_t s = 0; s < 64; s++) KNIGHT_MASK[s] = spec_knight(s);\n' + HSETUP +
                        '  struct Position P = nondet_Position(); uint32_t f = nondet_u32(); uint64_t tg = nondet_u64(); %s(f, &P, tg, l);' % fn + CANARY + '}\n')
        kw = dict(common)
        if k != 2:
            sl = 'slider_attack_%d' % k
            kw.update(contracts={fn: c, sl: SL[sl]}, nobody=[sl], replace=[sl])
            kw['spec'] = ['movegen.h']
        else:
            kw.update(contracts={fn: c})
        out.append(Job('leaf/generate_piece_moves_' + kn, MTUS, [fn], h, 'h_p', loopc=lc, enforce=fn, timeout=1200,
                       route='loop contract (unbounded)', note=kn + ' moves of one piece: plain moves to attacked squares inside the target mask, each once; at most 28 moves', **kw))
    # ---- pawn moves (not pinned pawns), both colours
    for side in (0, 1):
        fn = 'generate_pawn_moves_%d' % side
        s9, s7, s8 = ('+ 9', '+ 7', '+ 8') if side == 0 else ('- 9', '- 7', '- 8')
        s16 = '+ 16' if side == 0 else '- 16'
        PROMO = '(%s == 0 && %s >= 2 && %s <= 5)' % (GC, GP, GP)
        c = ('__CPROVER_requires((pawns & 0xff000000000000ffULL) == 0 && __builtin_popcountll(pawns) <= 8 && %s)\n' % (LISTREQ % 384) +
             '__CPROVER_assigns(g_cnt)\n'
             '__CPROVER_ensures(g_cnt == __CPROVER_old(g_cnt) + spec_pawn_count(%d, pawns, empty, push_mask, capture_mask, G_M))\n' % side +
             LISTENS % 384)
        lc = {(fn, 1): bitloop_contract(PROMO + ' && %s == %s %s' % (GT, GF, s9), 4), (fn, 2): bitloop_contract(PROMO + ' && %s == %s %s' % (GT, GF, s7), 4),
              (fn, 3): bitloop_contract(PROMO + ' && %s == %s %s' % (GT, GF, s8), 4), (fn, 4): bitloop_contract(PLAIN + ' && %s == %s %s' % (GT, GF, s9)),
              (fn, 5): bitloop_contract(PLAIN + ' && %s == %s %s' % (GT, GF, s7)), (fn, 6): bitloop_contract(PLAIN + ' && %s == %s %s' % (GT, GF, s8)),
              (fn, 7): bitloop_contract(PLAIN + ' && %s == %s %s' % (GT, GF, s16))}
        h = ND + BUF + ('void h_pw(void) {\n' + HSETUP + '  uint64_t a = nondet_u64(), b = nondet_u64(), c = nondet_u64(), d = nondet_u64(); %s(a, b, c, d, l);' % fn + CANARY + '}\n')
        out.append(Job('leaf/generate_pawn_moves_' + ('white', 'black')[side], MTUS, [fn], h, 'h_pw', contracts={fn: c}, loopc=lc, enforce=fn, timeout=2400,
                       route='loop contracts (7 bit loops, unbounded)', note='pawn captures, pushes, double pushes and promotions for arbitrary masks: each move of the rule table exactly once; at most 96 moves', **common))
    # ---- attack_in_ray (classical ray attack through the RAYS table) == ray walk
    AIR = 'attack_in_ray'
    c_air = '__CPROVER_requires(sq < 64 && ray < 8)\n__CPROVER_assigns()\n__CPROVER_ensures(__CPROVER_return_value == spec_walk_ray((int)ray, sq, blockers))\n'
    RAYSPRE = '  for (uint32_t d = 0; d < 8; d++) for (uint32_t s = 0; s < 64; s++) RAYS[d][s] = spec_ray((int)d, s);   /* C11: geom/rays_masks */\n'
    h = ND + 'void h_air(void) {\n' + RAYSPRE + '  uint32_t s = nondet_u32(), r = nondet_u32(); uint64_t o = nondet_u64(); %s(s, r, o);' % AIR + CANARY + '}\n'
    out.append(Job('leaf/attack_in_ray', MTUS, [AIR], h, 'h_air', contracts={AIR: c_air}, enforce=AIR, spec=['movegen.h'], timeout=900,
                   note='movegen.cpp attack_in_ray == walking the ray to the first blocker, all squares, rays and occupancies'))
    OCC = '(pos->_by_color_bb[0] | pos->_by_color_bb[1])'
    for side in (0, 1):
        sn = ('white', 'black')[side]
        # ---- pinned pawn
        fn = 'generate_pinned_pawn_moves_%d' % side
        c = ('__CPROVER_requires(from < 64 && (from >> 3) >= 1 && (from >> 3) <= 6 && ray < 8 && %s)\n' % (LISTREQ % 16) +
             '__CPROVER_assigns(g_cnt)\n'
             '__CPROVER_ensures(g_cnt == __CPROVER_old(g_cnt) + spec_pinned_pawn_count(%d, from, (int)ray, %s, pos->_by_color_bb[%d], G_M))\n' % (side, OCC, 1 - side) + LISTENS % 16)
        h = ND + BUF + ('void h_pp(void) {\n' + HSETUP + '  struct Position P = nondet_Position(); uint32_t f = nondet_u32(), r = nondet_u32(); uint64_t t = nondet_u64(); %s(f, r, &P, t, l);' % fn + CANARY + '}\n')
        kw = dict(common); kw['loop_contracts'] = False; kw['expect'] = []
        out.append(Job('leaf/generate_pinned_pawn_moves_' + sn, MTUS, [fn], h, 'h_pp', contracts={fn: c}, enforce=fn, timeout=900,
                       note='moves of a pawn pinned along a ray: only moves that stay on the pin line (captures on the diagonal, pushes on the file), promotions on the last rank', **kw))
        # ---- pinned piece (decodes the pin record)
        fp = 'generate_pinned_piece_moves_%d' % side
        KIND, FROM, RAY = '((pin >> 6) & 7)', '(pin & 63)', '((pin >> 9) & 7)'
        ALLOWED = '(%s == 5 || (%s == 3 && (%s & 1) == 0) || (%s == 4 && (%s & 1) == 1))' % (KIND, KIND, RAY, KIND, RAY)
        c = ('__CPROVER_requires(%s >= 1 && %s <= 5 && (%s != 1 || ((%s >> 3) >= 1 && (%s >> 3) <= 6)) && (pin >> 12) == 0 && %s)\n' % (KIND, KIND, KIND, FROM, FROM, LISTREQ % 64) +
             '__CPROVER_assigns(g_cnt)\n'
             '__CPROVER_ensures(g_cnt == __CPROVER_old(g_cnt) + (%s == 2 ? 0 : (%s == 1 ? spec_pinned_pawn_count(%d, %s, (int)%s, %s, pos->_by_color_bb[%d], G_M) : '
             '((%s && %s && %s == %s && (((spec_walk_line((int)%s, %s, %s) & target) >> %s) & 1)) ? 1 : 0))))\n' % (KIND, KIND, side, FROM, RAY, OCC, 1 - side, ALLOWED, PLAIN, GF, FROM, RAY, FROM, OCC, GT) + LISTENS % 64)
        lc = {(fp, 1): bitloop_contract('%s && %s == from' % (PLAIN, GF))}
        h = ND + BUF + ('void h_pc(void) {\n' + RAYSPRE + HSETUP + '  struct Position P = nondet_Position(); uint32_t pin = nondet_u32(); uint64_t t = nondet_u64(); %s(pin, &P, t, l);' % fp + CANARY + '}\n')
        out.append(Job('leaf/generate_pinned_piece_moves_' + sn, MTUS, [fp], h, 'h_pc', contracts={fp: c}, loopc=lc, enforce=fp, timeout=1500,
                       route='loop contract (unbounded)', note='moves of a pinned piece: none for a knight, the pinned-pawn table for a pawn, sliders along the pin line inside the target mask', **common))
        # ---- en passant (not-pinned pawns)
        fe = 'generate_enpassant_%d' % side
        KSQ = '$1->_piece_position[%d][0]' % (6 + 6 * side)
        ERQ = '($1->_by_color_bb[%d] & ($1->_by_piece_kind_bb[4] | $1->_by_piece_kind_bb[5]))' % (1 - side)
        c = ('__CPROVER_requires($5 < 64 && ($5 >> 3) == %d && %s < 64 && %s)\n' % (5 if side == 0 else 2, KSQ, (LISTREQ % 8).replace('list', '$6')) +
             '__CPROVER_assigns(g_cnt)\n'
             '__CPROVER_ensures(g_cnt == __CPROVER_old(g_cnt) + spec_ep_count(%d, %s, %s, %s, $2, $3, $4, $5, G_M))\n' % (side, OCC.replace('pos', '$1'), KSQ, ERQ) + (LISTENS % 8).replace('list', '$6'))
        h = ND + BUF + ('void h_ep(void) {\n' + RAYSPRE + HSETUP + '  struct Position P = nondet_Position(); uint64_t a = nondet_u64(), b = nondet_u64(), c = nondet_u64(); uint32_t e = nondet_u32(); %s(&P, a, b, c, e, l);' % fe + CANARY + '}\n')
        kw = dict(common); kw['loop_contracts'] = False; kw['expect'] = []
        out.append(Job('leaf/generate_enpassant_' + sn, MTUS, [fe], h, 'h_ep', contracts={fe: c}, enforce=fe, timeout=900,
                       note='en passant captures by not-pinned pawns: resolves the check if any, and the rank-exposure test when a single pawn captures', **kw))
        # ---- checkers
        fc = 'checkers_%d' % side
        K = 'position->_piece_position[%d][0]' % (6 + 6 * side)
        EN = lambda k: '(position->_by_color_bb[%d] & position->_by_piece_kind_bb[%d])' % (1 - side, k)
        OCCP = '(position->_by_color_bb[0] | position->_by_color_bb[1])'
        PAWNSRC = '(spec_shift_bit_set(%s, %d))' % (K, side)
        c = ('__CPROVER_requires(%s < 64)\n__CPROVER_assigns()\n' % K +
             '__CPROVER_ensures(__CPROVER_return_value == ((spec_pawn_attackers_of(%s, %d) & %s) | (spec_knight(%s) & %s) | (spec_bishop_walk(%s, %s) & (%s | %s)) | (spec_rook_walk(%s, %s) & (%s | %s))))\n'
             % (K, side, EN(1), K, EN(2), K, OCCP, EN(3), EN(5), K, OCCP, EN(4), EN(5)))
        h = ND + ('void h_ck(void) { for (uint32_t s = 0; s < 64; s++) KNIGHT_MASK[s] = spec_knight(s);\n  struct Position P = nondet_Position(); %s(&P);' % fc + CANARY + '}\n')
        out.append(Job('leaf/checkers_' + sn, MTUS, [fc], h, 'h_ck', contracts=dict(SL, **{fc: c}), nobody=list(SL), enforce=fc, replace=['slider_attack_3', 'slider_attack_4'],
                       spec=['movegen.h'], timeout=900, note='checkers(side) == enemy pieces attacking the king square (pawn, knight, bishop/queen and rook/queen rays)'))
    return out
