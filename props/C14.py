"""C14 - static evaluation is a pure, bounded function of the position (claimed in part).

  bound/<class>   every specialised endgame evaluator under contract: for a well-formed position to which it applies, the score lies
                  strictly inside the non-mate range  (-win_in(MAX_DEPTH), win_in(MAX_DEPTH)) = (-639960, 639960)
  Cache transparency (pawn hash table, HashMap::clear) and the general evaluator are NOT decided by this check yet.
"""
import os
from runner import Job, tu
from props.poscommon import SPEC, POST, ND, CANARY
from props.C11 import loops_unwind
from props.C13 import TUS, NAMES, SL3

LEVEL = 'proof'
EXPLANATION = 'Interval postconditions on the 17 endgame evaluators (|score| < win_in(MAX_DEPTH)) for all well-formed positions they apply to.'
ASSUMPTIONS = ['the general evaluator PositionScorer::score, the pawn hash table (cache transparency, HashMap::clear) are NOT covered: the purity clause of C14 is not decided',
               'positions satisfy wf_pos with at most 8 pawns and 10 pieces of a kind per side', 'slider_attack<BISHOP> == ray walk (C11)', 'KING_MASK (C11)']
NOT_COVERED = ['cache transparency / ucinewgame', 'PositionScorer bounds']

WIN = 640000 - 40   # VALUE_MATE - MAX_DEPTH  (VALUE_NONE 640002, INFINITE 640001, MATE 640000)


def jobs(tier, seed):
    out = []
    for k, nm in enumerate(NAMES):
        ap, sc = 'Endgame_%d__applies' % k, 'Endgame_%d__strongSideScore' % k
        c = ('__CPROVER_requires(wf_pos($1) && self->strongSide <= 1 && self->weakSide == 1 - self->strongSide && self->strongKing == 6 + 6 * self->strongSide && self->weakKing == 12 - 6 * self->strongSide)\n'
             '__CPROVER_requires(%s(self, $1))\n__CPROVER_assigns()\n' % ap +
             '__CPROVER_ensures(-%d < __CPROVER_return_value && __CPROVER_return_value < %d)\n' % (WIN, WIN))
        pre = ''
        if nm == 'KPK':
            pre += '  __CPROVER_havoc_object(BITBASE);\n'
        if nm == 'KQKRPs':
            pre += '  for (uint32_t s = 0; s < 64; s++) KING_MASK[s] = spec_king(s);\n'
        h = ND + ('void h_b(void) { verif_restore_statics(); struct Position P = nondet_Position(); struct Endgame_%d E; E.strongSide = nondet_u32(); E.weakSide = nondet_u32(); E.strongKing = nondet_u32(); E.weakKing = nondet_u32();\n' % k + pre +
                  '  %s(&E, &P);' % sc + CANARY + '}\n')
        kw = dict(contracts={sc: c})
        if nm == 'KBPsKB':
            kw = dict(contracts={sc: c, 'slider_attack_3': SL3}, nobody=['slider_attack_3'], replace=['slider_attack_3'])
        out.append(Job('bound/' + nm, TUS, [sc, ap], h, 'h_b', enforce=sc, spec=SPEC + ['geom.h'], post_spec=POST, timeout=1500,
                       unwindset=loops_unwind([('Endgame_', 11)]), note='K%s evaluator stays strictly inside the non-mate range' % nm[1:], **kw))
    # ---- purity of what goes into the pawn cache: the cached quantity (score_pawns_for_side<side>) depends on nothing but the pawn structure
    #      (what Position::pawn_hash covers, C04).  Two-run (self-composition) obligation on the real function: two arbitrary positions and two
    #      arbitrary scorer objects that agree on the pawn lists and pawn sets of both colours give the same score.
    #      Both runs read the pawn sets through Position::pieces(colour, PAWN); that accessor is applied in stub form with a contract that returns the
    #      ghost pawn set G_PAWNS[colour] and REQUIRES it to be the position's real pawn set - so the two runs compute on the same symbols (two
    #      separately chosen positions merely constrained to be equal leave the solver to prove 64-bit multipliers equivalent: did not finish).
    #      The two Score multiplications are applied as an UNINTERPRETED function of their operands (sound for a determinism property: equal operands
    #      give equal products whatever multiplication is); the group therefore carries no signed-overflow obligations.
    PTUS14 = tu('score.cpp', 'types.cpp', 'position.cpp', 'bithacks.cpp', 'move_bitboards.cpp')
    PCK = 'Position__pieces__Color_PieceKind'
    c_pck = ('__CPROVER_requires(c <= 1 && p == 1 && G_PAWNS[c] == (self->_by_color_bb[c] & self->_by_piece_kind_bb[1]))\n__CPROVER_assigns()\n'
             '__CPROVER_ensures(__CPROVER_return_value == G_PAWNS[c])\n')
    c_m1 = ('__CPROVER_requires(1)\n__CPROVER_assigns()\n__CPROVER_ensures(__CPROVER_return_value.mg == __CPROVER_uninterpreted_mul64($1, $2.mg) && __CPROVER_return_value.eg == __CPROVER_uninterpreted_mul64($1, $2.eg))\n')
    c_m2 = ('__CPROVER_requires(1)\n__CPROVER_assigns()\n__CPROVER_ensures(__CPROVER_return_value.mg == __CPROVER_uninterpreted_mul64(self->mg, $1.mg) && __CPROVER_return_value.eg == __CPROVER_uninterpreted_mul64(self->eg, $1.eg))\n')
    for side in (0, 1):
        fn = 'PositionScorer__score_pawns_for_side_%d' % side
        h = ('struct Position nondet_Position(void); struct PositionScorer nondet_PositionScorer(void); uint64_t nondet_u64(void);\n'
             'void h_pp(void) {\n  struct Position P1 = nondet_Position(); struct Position P2 = nondet_Position(); struct PositionScorer S1 = nondet_PositionScorer(), S2 = nondet_PositionScorer();\n'
             '  G_PAWNS[0] = nondet_u64(); G_PAWNS[1] = nondet_u64();\n'
             '  __CPROVER_assume(P1._piece_count[1] >= 0 && P1._piece_count[1] <= 8 && P1._piece_count[7] >= 0 && P1._piece_count[7] <= 8);\n'
             '  for (int pc = 1; pc <= 7; pc += 6) for (int i = 0; i < 10; i++)\n'
             '    if (i < P1._piece_count[pc]) __CPROVER_assume(P1._piece_position[pc][i] >= 8 && P1._piece_position[pc][i] < 56);   /* pawns stand on ranks 2..7 */\n'
             '  /* same pawn structure (what Position::pawn_hash covers): pawn lists copied, pawn sets of both colours equal to the ghost sets; everything else arbitrary in both */\n'
             '  P2._piece_count[1] = P1._piece_count[1]; P2._piece_count[7] = P1._piece_count[7];\n'
             '  for (int i = 0; i < 10; i++) { P2._piece_position[1][i] = P1._piece_position[1][i]; P2._piece_position[7][i] = P1._piece_position[7][i]; }\n'
             '  for (int c = 0; c < 2; c++) __CPROVER_assume((P1._by_color_bb[c] & P1._by_piece_kind_bb[1]) == G_PAWNS[c] && (P2._by_color_bb[c] & P2._by_piece_kind_bb[1]) == G_PAWNS[c]);\n'
             '  struct Score a = %s(&S1, &P1), b = %s(&S2, &P2);\n' % (fn, fn) +
             '  __CPROVER_assert(a.mg == b.mg && a.eg == b.eg, "pawn score of one side is a function of the pawn structure alone (same pawn lists and pawn sets => same score)");' + CANARY + '}\n')
        # thorough tier (8-17 minutes per colour with CaDiCaL, the only back end that finishes): too long and too variable for the quick command
        out.append(Job('pawn_cache/depends_on_pawns_only_' + ('white', 'black')[side], PTUS14, [fn], h, 'h_pp', timeout=2400,
                       contracts={PCK: c_pck, 'op_mul': c_m1, 'Score__op_mul': c_m2}, nobody=[PCK, 'op_mul', 'Score__op_mul'], stubs=[PCK, 'op_mul', 'Score__op_mul'],
                       backend='cadical', drop_flags=['--signed-overflow-check'], gb=3,
                       tier='thorough',
                       pre_text='uint64_t G_PAWNS[2];\nint64_t __CPROVER_uninterpreted_mul64(int64_t, int64_t);\n',
                       unwindset=loops_unwind([(fn, 9)]), route='closed-by-complete-unwinding(9): at most 8 pawns of a colour',
                       note='two-run obligation: score_pawns_for_side<%s> gives equal results on any two positions (and scorer states) with the same pawn structure - the quantity cached under the pawn key depends only on what the key covers (Score multiplications uninterpreted, hence no overflow obligations in this group)' % ('WHITE', 'BLACK')[side]))
    # longest first
    out.sort(key=lambda j: 0 if j.name.startswith('pawn_cache') else 1)
    return out
