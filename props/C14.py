"""C14 - static evaluation is a pure, bounded function of the position (claimed in part).

  bound/<class>   every specialised endgame evaluator under contract: for a well-formed position to which it applies, the score lies
                  strictly inside the non-mate range  (-win_in(MAX_DEPTH), win_in(MAX_DEPTH)) = (-639960, 639960)
  Cache transparency (pawn hash table, HashMap::clear) and the general evaluator are NOT decided by this check yet.
"""
from runner import Job, tu
from props.poscommon import SPEC, POST, ND, CANARY
from props.C11 import loops_unwind
from props.C13 import TUS, NAMES, SL3

LEVEL = 'proof'
EXPLANATION = 'Interval postconditions on the 17 endgame evaluators (|score| < win_in(MAX_DEPTH)) for all well-formed positions they apply to.'
ASSUMPTIONS = ['the general evaluator PositionScorer::score, the pawn hash table (cache transparency, HashMap::clear) are NOT covered: the purity clause of C14 is not decided',
               'positions satisfy wf_pos with at most 8 pawns and 10 pieces of a kind per side', 'slider_attack<BISHOP> == ray walk (C11)', 'KING_MASK (C11)']
NOT_COVERED = ['cache transparency / ucinewgame', 'PositionScorer bounds']

WIN = 640000 - 40   # VALUE_MATE - MAX_DEPTH  (VALUE_NONE 640002, INFINITE 640001, MATE 640000)


def jobs(tier, seed):
    out = []
    for k, nm in enumerate(NAMES):
        ap, sc = 'Endgame_%d__applies' % k, 'Endgame_%d__strongSideScore' % k
        c = ('__CPROVER_requires(wf_pos($1) && self->strongSide <= 1 && self->weakSide == 1 - self->strongSide && self->strongKing == 6 + 6 * self->strongSide && self->weakKing == 12 - 6 * self->strongSide)\n'
             '__CPROVER_requires(%s(self, $1))\n__CPROVER_assigns()\n' % ap +
             '__CPROVER_ensures(-%d < __CPROVER_return_value && __CPROVER_return_value < %d)\n' % (WIN, WIN))
        pre = ''
        if nm == 'KPK':
            pre += '  __CPROVER_havoc_object(BITBASE);\n'
        if nm == 'KQKRPs':
            pre += '  for (uint32_t s = 0; s < 64; s++) KING_MASK[s] = spec_king(s);\n'
        h = ND + ('void h_b(void) { verif_restore_statics(); struct Position P = nondet_Position(); struct Endgame_%d E; E.strongSide = nondet_u32(); E.weakSide = nondet_u32(); E.strongKing = nondet_u32(); E.weakKing = nondet_u32();\n' % k + pre +
                  '  %s(&E, &P);' % sc + CANARY + '}\n')
        kw = dict(contracts={sc: c})
        if nm == 'KBPsKB':
            kw = dict(contracts={sc: c, 'slider_attack_3': SL3}, nobody=['slider_attack_3'], replace=['slider_attack_3'])
        out.append(Job('bound/' + nm, TUS, [sc, ap], h, 'h_b', enforce=sc, spec=SPEC + ['geom.h'], post_spec=POST, timeout=1500,
                       unwindset=loops_unwind([('Endgame_', 11)]), note='K%s evaluator stays strictly inside the non-mate range' % nm[1:], **kw))
    return out
