// schedule replay for C05: a `stop` that lands after Search::go() has cleared the flag but before depth 1 completes
#include "endgame.h"
#include "movegen.h"
#include "search.h"
#include "zobrist_hash.h"
#include <thread>
#include <atomic>
#include <sstream>
#include <iostream>
using namespace engine;
int main() {
    move_bitboards::init(); zobrist::init(); bitbase::init(); endgame::init();
    Position pos;   // start position
    int bad = 0, runs = 200;
    for (int r = 0; r < runs; r++) {
        Limits limits; limits.infinite = true;
        PositionScorer scorer; static tt::TTable ttable;
        Search s(pos, limits, scorer, ttable);
        std::atomic<bool> done{false};
        std::thread stopper([&] { while (!done) s.stop(); });      // `stop` commands arriving continuously
        std::stringstream out; auto* old = std::cout.rdbuf(out.rdbuf());
        s.go();
        std::cout.rdbuf(old); done = true; stopper.join();
        std::string o = out.str(); auto p = o.find("bestmove");
        std::string bm = p == std::string::npos ? "(none)" : o.substr(p, o.find('\n', p) - p);
        if (bm.find("a1a1") != std::string::npos || p == std::string::npos) { if (!bad) std::cout << "run " << r << ": " << bm << "\n"; bad++; }
    }
    std::cout << bad << " of " << runs << " runs answered with an illegal bestmove\n";
    return bad ? 1 : 0;
}
