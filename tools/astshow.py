#!/usr/bin/env python3
"""development aid: compact print of the clang AST of one function.  astshow.py file.cpp cname"""
import sys, os
sys.path.insert(0, os.path.dirname(os.path.abspath(__file__)))
import cxx2c
def show(n, ind=0, maxd=40):
    if not isinstance(n, dict) or 'kind' not in n: 
        print('  '*ind + '<null>'); return
    extra = []
    for k in ('name','opcode','castKind','value','valueCategory','isArrow','isPostfix'):
        if k in n: extra.append('%s=%s' % (k, n[k]))
    if 'type' in n: extra.append('T=' + n['type'].get('qualType','')[:70])
    if 'referencedDecl' in n: extra.append('ref=%s:%s' % (n['referencedDecl'].get('kind'), n['referencedDecl'].get('name')))
    if 'referencedMemberDecl' in n: extra.append('member')
    if 'ctorType' in n: extra.append('ctor=' + n['ctorType']['qualType'][:80])
    print('  '*ind + n['kind'] + ' ' + ' '.join(extra))
    if ind < maxd:
        for c in n.get('inner', []): show(c, ind+1, maxd)
cxx2c.CFG_DIR = '/repo/_build'
p = cxx2c.Program(sys.argv[1:-1])
info = p.lookup(sys.argv[-1])
show(info['def'] or info['node'])
