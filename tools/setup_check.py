#!/usr/bin/env python3
"""setup: verify the pre-installed tools the checks need are present (nothing is downloaded or built here)."""
import shutil, subprocess, sys
need = ['cbmc', 'goto-cc', 'goto-instrument', 'clang++', 'g++', 'c++filt']
missing = [t for t in need if shutil.which(t) is None]
if missing:
    print('missing tools: ' + ' '.join(missing)); sys.exit(1)
print(subprocess.run(['cbmc', '--version'], capture_output=True, text=True).stdout.strip())

# rule-oracle self-validation against published perft counts (no engine code involved)
import os, tempfile
V = os.path.dirname(os.path.dirname(os.path.abspath(__file__)))
with tempfile.TemporaryDirectory() as td:
    exe = os.path.join(td, 'ost')
    p = subprocess.run(['gcc', '-O2', '-I', os.path.join(V, 'spec'), os.path.join(V, 'tools', 'oracle_selftest.c'), '-o', exe], capture_output=True, text=True)
    if p.returncode != 0:
        print('oracle self-test build failed', p.stderr[-800:]); sys.exit(1)
    q = subprocess.run([exe], capture_output=True, text=True)
    print(q.stdout.strip())
    if q.returncode != 0:
        print('ORACLE SELF-TEST FAILED'); sys.exit(1)
print('oracle self-test ok')
