#!/usr/bin/env python3
"""setup: verify the pre-installed tools the checks need are present (nothing is downloaded or built here)."""
import shutil, subprocess, sys
need = ['cbmc', 'goto-cc', 'goto-instrument', 'clang++', 'g++', 'c++filt']
missing = [t for t in need if shutil.which(t) is None]
if missing:
    print('missing tools: ' + ' '.join(missing)); sys.exit(1)
print(subprocess.run(['cbmc', '--version'], capture_output=True, text=True).stdout.strip())
print('setup ok')
