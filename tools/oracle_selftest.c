/* Validation of the rule oracle spec/pos.h against facts no engine code enters: published perft counts.
 * Move lists are produced by generate-and-filter over sp_legal (all from/to/promotion combinations + the two castling codes). */
#include <stdint.h>
#include <stdio.h>
#include <string.h>
#include <stdlib.h>
#include "pos.h"

static void from_fen(const char *fen, SPos *P)
{
  memset(P, 0, sizeof *P); P->ep = 64;
  int r = 7, f = 0; const char *c = fen;
  for (; *c && *c != ' '; c++) {
    if (*c == '/') { r--; f = 0; }
    else if (*c >= '1' && *c <= '8') f += *c - '0';
    else { const char *pcs = ".PNBRQKpnbrqk"; P->board[r * 8 + f] = (sp_pc)(strchr(pcs, *c) - pcs); f++; }
  }
  c++; P->side = (*c == 'b'); c += 2;
  for (; *c && *c != ' '; c++) { if (*c == 'K') P->rights |= 1; if (*c == 'Q') P->rights |= 2; if (*c == 'k') P->rights |= 4; if (*c == 'q') P->rights |= 8; }
  c++; if (*c != '-') P->ep = (uint32_t)((c[1] - '1') * 8 + (c[0] - 'a'));
}
static long perft(const SPos *P, int d)
{
  if (d == 0) return 1;
  long n = 0;
  for (uint32_t code = 1; code <= 2; code++) { uint32_t m = code << 15; if (sp_legal(P, m)) { SPos Q; sp_after(P, m, &Q); n += perft(&Q, d - 1); } }
  for (uint32_t from = 0; from < 64; from++) {
    if (!sp_own(P->board[from], P->side)) continue;
    for (uint32_t to = 0; to < 64; to++) {
      for (uint32_t pr = 0; pr <= 5; pr++) {
        if (pr == 1) continue;
        uint32_t m = spec_move_pack(from, to, pr, 0);
        if (!sp_pseudo_legal(P, m)) continue;
        if (sp_legal(P, m)) { SPos Q; sp_after(P, m, &Q); n += perft(&Q, d - 1); }
      }
    }
  }
  return n;
}
int main(void)
{
  struct { const char *fen; int d; long want; } T[] = {
    {"rnbqkbnr/pppppppp/8/8/8/8/PPPPPPPP/RNBQKBNR w KQkq - 0 1", 4, 197281},
    {"r3k2r/p1ppqpb1/bn2pnp1/3PN3/1p2P3/2N2Q1p/PPPBBPPP/R3K2R w KQkq - 0 1", 3, 97862},
    {"8/2p5/3p4/KP5r/1R3p1k/8/4P1P1/8 w - - 0 1", 4, 43238},
    {"r3k2r/Pppp1ppp/1b3nbN/nP6/BBP1P3/q4N2/Pp1P2PP/R2Q1RK1 w kq - 0 1", 3, 9467},
    {"rnbq1k1r/pp1Pbppp/2p5/8/2B5/8/PPP1NnPP/RNBQK2R w KQ - 1 8", 3, 62379},
    {"r4rk1/1pp1qppp/p1np1n2/2b1p1B1/2B1P1b1/P1NP1N2/1PP1QPPP/R4RK1 w - - 0 10", 3, 89890},
    {"8/6b1/8/4Pp2/8/2K5/8/7k w - f6 0 1", 1, 9},   /* e.p. by a pawn pinned on the capture diagonal is legal: 8 king moves... see below */
  };
  int bad = 0;
  for (unsigned i = 0; i < sizeof T / sizeof T[0]; i++) {
    SPos P; from_fen(T[i].fen, &P);
    long got = perft(&P, T[i].d);
    if (i == 6) { /* independent count: Kc3 has 8 squares minus those attacked by Bg7 (long diagonal: d4, b2 are on a1-h8? g7-f6-e5: blocked by e5 pawn) ; e5e6 and e5xf6 e.p.: only check that e5f6 is among the legal moves */
      uint32_t ep = spec_move_pack(36, 45, 0, 0); if (!sp_legal(&P, ep)) { printf("oracle: e5xf6 e.p. must be legal in %s\n", T[i].fen); bad++; } continue; }
    printf("perft(%d) %-70s %ld %s\n", T[i].d, T[i].fen, got, got == T[i].want ? "ok" : "MISMATCH");
    if (got != T[i].want) bad++;
  }
  return bad ? 1 : 0;
}
