#!/bin/bash
# verify_seed.sh <seed dir with patch.diff, run_demo.sh ...> : confirm a seeded change in a scratch worktree of /repo
# prints one summary line; exit 0 iff: clean demo passes, patch applies, patched tree builds, unitTests pass, patched demo fails
sd=$(realpath "$1"); name=$(basename "$sd"); wt=/tmp/wt/v_$name.$$
git -C /repo worktree add --detach "$wt" HEAD >/dev/null 2>&1 || { echo "$name: worktree failed"; exit 3; }
cd "$wt"; mkdir -p seeded; cp -r "$sd"/* seeded/; chmod +x seeded/run_demo.sh
seeded/run_demo.sh >"$wt/clean.log" 2>&1; c=$?
git apply seeded/patch.diff; a=$?
cmake -S . -B _build -G Ninja -DFETCHCONTENT_FULLY_DISCONNECTED=ON -DFETCHCONTENT_SOURCE_DIR_GOOGLETEST=/usr/src/googletest -DCMAKE_CXX_FLAGS=-Wno-error >/dev/null 2>&1 && cmake --build _build -j8 >"$wt/build.log" 2>&1; b=$?
./_build/unitTests >"$wt/ut.log" 2>&1; u=$?
seeded/run_demo.sh >"$wt/patched.log" 2>&1; p=$?
echo "$name: clean_demo_exit=$c apply=$a build=$b unitTests_exit=$u ($(grep -c '\[       OK' $wt/ut.log) ok) patched_demo_exit=$p | $(tail -1 $wt/patched.log | cut -c1-160)"
cd /; git -C /repo worktree remove --force "$wt"
[ $c -eq 0 ] && [ $a -eq 0 ] && [ $b -eq 0 ] && [ $u -eq 0 ] && [ $p -ne 0 ]
