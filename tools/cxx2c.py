#!/usr/bin/env python3
"""cxx2c — mechanical extraction of functions of adajed/chessplusplus to C11 for CBMC.

Input : clang 14's typed JSON AST of the real translation units of /repo (current working tree).
Output: C text of the requested functions and the transitive closure of their callees, with
        contract clauses spliced between declarator and body and loop contracts spliced at loops
        identified by (function, ordinal).

Closed world: every AST node kind / cast kind / type / callee that is not on the rule list below
raises Unsupported, which the runner turns into EXTRACTION-UNSUPPORTED (exit status 2, never a
violation).  The rule list is documented in DESIGN.md section 2.1.
"""
import json, os, re, subprocess, hashlib, sys
from collections import OrderedDict
from concurrent.futures import ThreadPoolExecutor

REPO = os.environ.get('VERIF_REPO', '/repo')
CFG_DIR = None   # directory holding the generated chessplusplusConfig.h (set by the runner)
GUARD = 'CHESSPLUSPLUS_VERIF'
BASE_DEFINES = ['-DNDEBUG', '-DLOG_LEVEL=0', '-D' + GUARD]


class Unsupported(Exception):
    pass


class Drift(Exception):
    pass


def clang_cmd(cpp, extra=()):
    inc = ['-I', os.path.join(REPO, 'engine')]
    if CFG_DIR:
        inc += ['-I', CFG_DIR]
    return ['clang++', '-std=c++20', '-fsyntax-only', '-Wno-everything', *BASE_DEFINES, *inc,
            '-Xclang', '-ast-dump=json', '-Xclang', '-ast-dump-filter=engine::', *extra, cpp]


def parse_concat_json(txt):
    dec = json.JSONDecoder()
    i = 0
    n = len(txt)
    objs = []
    while i < n:
        while i < n and txt[i].isspace():
            i += 1
        if i >= n:
            break
        o, i = dec.raw_decode(txt, i)
        objs.append(o)
    return objs


_AST_CACHE = {}
import threading
_AST_LOCKS = {}
_AST_GUARD = threading.Lock()


def load_ast(cpp):
    with _AST_GUARD:
        lock = _AST_LOCKS.setdefault(cpp, threading.Lock())
    with lock:
        return _load_ast(cpp)


def _load_ast(cpp):
    if cpp in _AST_CACHE:
        return _AST_CACHE[cpp]
    p = subprocess.run(clang_cmd(cpp), capture_output=True, text=True)
    if p.returncode != 0:
        raise Unsupported('clang failed on %s: %s' % (cpp, p.stderr[-2000:]))
    objs = parse_concat_json(p.stdout)
    _AST_CACHE[cpp] = objs
    return objs


BUILTIN = {'unsigned long': 'uint64_t', 'long': 'int64_t', 'unsigned int': 'uint32_t', 'int': 'int',
           'bool': '_Bool', 'unsigned char': 'uint8_t', 'char': 'char', 'void': 'void',
           'unsigned long long': 'unsigned long long', 'long long': 'long long', 'double': 'double',
           'float': 'float', 'unsigned short': 'uint16_t', 'short': 'int16_t', 'signed char': 'int8_t',
           'size_t': 'size_t', 'std::size_t': 'size_t'}

OPNAMES = {'+': 'add', '-': 'sub', '*': 'mul', '/': 'div', '%': 'mod', '+=': 'addeq', '-=': 'subeq',
           '*=': 'muleq', '/=': 'diveq', '++': 'inc', '--': 'dec', '&': 'and', '|': 'or', '^': 'xor',
           '&=': 'andeq', '|=': 'oreq', '^=': 'xoreq', '!': 'not', '~': 'compl', '==': 'eq', '!=': 'ne',
           '<': 'lt', '>': 'gt', '<=': 'le', '>=': 'ge', '<<': 'shl', '>>': 'shr', '[]': 'index',
           '()': 'call', '=': 'assign', '<<=': 'shleq', '>>=': 'shreq', '->': 'arrow', '&&': 'land',
           '||': 'lor', '<=>': 'cmp3'}


def sanitize(s):
    s = s.replace('engine::', '').replace('const ', '').replace('unsigned ', 'u')
    s = re.sub(r'[^A-Za-z0-9_]+', '_', s).strip('_')
    return s


def func_body(o):
    for x in o.get('inner', []):
        if x.get('kind') == 'CompoundStmt':
            return x
    return None


def params_of(o):
    return [p for p in o.get('inner', []) if p.get('kind') == 'ParmVarDecl']


def targs_of(o):
    return [a for a in o.get('inner', []) if a.get('kind') == 'TemplateArgument']


def qt(t):
    return t.get('desugaredQualType', t['qualType'])


class Program:
    """Union of the ASTs of several translation units, indexed by mangled name."""

    def __init__(self, cpps):
        self.cpps = list(cpps)
        with ThreadPoolExecutor(max_workers=8) as ex:
            asts = list(ex.map(load_ast, self.cpps))
        self.enums = OrderedDict()       # name -> node
        self.aliases = {}                # name -> node
        self.records = OrderedDict()     # name -> node (complete definitions)
        self.rec_by_id = {}
        self.funcs = OrderedDict()       # key -> info dict
        self.func_by_id = {}             # AST id -> key
        self.globals = OrderedDict()     # name -> node (prefer the one with an initialiser/definition)
        self.global_by_id = {}
        self.enum_const = {}             # constant name -> (enum name, value)
        self.field_owner = {}
        for cpp, objs in zip(self.cpps, asts):
            for o in objs:
                if o.get('kind') in ('VarDecl', 'CXXRecordDecl', 'ClassTemplateSpecializationDecl', 'ClassTemplateDecl', 'NamespaceDecl') and 'includedFrom' not in o.get('loc', {}) and \
                        'includedFrom' not in o.get('range', {}).get('begin', {}) and \
                        (o.get('loc', {}).get('file', cpp) == cpp):
                    o['_main_file_of'] = cpp
                self._index(o, None, [])
        self._name_functions()

    # ------------------------------------------------------------------ indexing
    def _index(self, o, parent_rec, ns):
        k = o.get('kind')
        if k == 'NamespaceDecl':
            for c in o.get('inner', []):
                if '_main_file_of' in o and isinstance(c, dict):
                    c['_main_file_of'] = o['_main_file_of']
                self._index(c, None, ns + [o.get('name', '')])
        elif k == 'EnumDecl':
            if 'inner' in o and o.get('name'):
                if o['name'] not in self.enums:
                    self.enums[o['name']] = o
                    v = -1
                    for c in o['inner']:
                        if c.get('kind') != 'EnumConstantDecl':
                            continue
                        if c.get('inner'):
                            cv = c['inner'][0]
                            while cv.get('kind') in ('ImplicitCastExpr',) and 'value' not in cv:
                                cv = cv['inner'][0]
                            if cv.get('kind') == 'ConstantExpr' and 'value' in cv:
                                v = int(cv['value'])
                            elif cv.get('kind') == 'IntegerLiteral':
                                v = int(cv['value'])
                            else:
                                raise Unsupported('enum constant value of %s::%s' % (o['name'], c['name']))
                        else:
                            v += 1
                        self.enum_const[c['name']] = (o['name'], v)
        elif k in ('TypeAliasDecl', 'TypedefDecl'):
            self.aliases.setdefault(o['name'], o)
        elif k == 'ClassTemplateDecl':
            for c in o.get('inner', []):
                if c.get('kind') == 'ClassTemplateSpecializationDecl':
                    if '_main_file_of' in o:
                        c['_main_file_of'] = o['_main_file_of']
                    self._index(c, None, ns)
        elif k in ('CXXRecordDecl', 'ClassTemplateSpecializationDecl'):
            if o.get('completeDefinition') and o.get('name'):
                if '_tmpl_name' not in o:
                    o['_tmpl_name'] = o['name']
                rname = o['_tmpl_name']
                if k == 'ClassTemplateSpecializationDecl':
                    for a in targs_of(o):
                        rname += '_' + (str(a['value']).replace('-', 'm') if 'value' in a else sanitize(a.get('type', {}).get('qualType', 'T')))
                o['name'] = rname
                if rname not in self.records:
                    self.records[rname] = o
                self.rec_by_id[o['id']] = o
                for c in o.get('inner', []):
                    if '_main_file_of' in o:
                        c['_main_file_of'] = o['_main_file_of']
                    self._index(c, o, ns)
        elif k in ('FunctionDecl', 'CXXMethodDecl', 'CXXConstructorDecl'):
            self._add_func(o, parent_rec)
        elif k == 'FunctionTemplateDecl':
            for c in o.get('inner', []):
                if c.get('kind') in ('FunctionDecl', 'CXXMethodDecl') and targs_of(c):
                    self._add_func(c, parent_rec)
        elif k == 'VarDecl':
            self.global_by_id[o['id']] = o
            o['_cname'] = o['name'] if parent_rec is None else parent_rec['name'] + '__' + o['name']
            if parent_rec is not None:
                has_init = any(x.get('kind') not in ('FullComment',) for x in o.get('inner', []))
                if has_init or o['_cname'] not in self.globals:
                    self.globals[o['_cname']] = o
                return
            prev = self.globals.get(o['name'])
            has_init = any(x.get('kind') not in ('FullComment',) for x in o.get('inner', []))
            if prev is None:
                self.globals[o['name']] = o
            else:
                prev_init = any(x.get('kind') not in ('FullComment',) for x in prev.get('inner', []))
                prev_extern = prev.get('storageClass') == 'extern'
                if (has_init and not prev_init) or (prev_extern and o.get('storageClass') != 'extern'):
                    self.globals[o['name']] = o

    def _add_func(self, o, rec):
        if rec is None and o['kind'] in ('CXXMethodDecl', 'CXXConstructorDecl') and 'parentDeclContextId' in o:
            rec = self.rec_by_id.get(o['parentDeclContextId'])
        mn = o.get('mangledName')
        if mn is None:
            return
        key = mn
        info = self.funcs.get(key)
        if info is None:
            info = {'key': key, 'node': o, 'rec': rec, 'targs': targs_of(o) or None, 'def': None, 'cname': None}
            self.funcs[key] = info
        if info['rec'] is None and rec is not None:
            info['rec'] = rec
        if func_body(o) is not None and info['def'] is None:
            info['def'] = o
        if o.get('storageClass') == 'static' and o['kind'] == 'CXXMethodDecl':
            info['static_method'] = True
        self.func_by_id[o['id']] = key

    def _base_name(self, info):
        o = info['node']
        name = o['name']
        if name.startswith('operator'):
            op = name[len('operator'):].strip()
            name = 'op_' + OPNAMES.get(op, sanitize(op))
        if o['kind'] == 'CXXConstructorDecl':
            name = 'ctor'
        if info['rec'] is not None and o['kind'] != 'FunctionDecl':
            name = info['rec']['name'] + '__' + name
        if info['targs']:
            for a in info['targs']:
                if 'value' in a:
                    name += '_' + str(a['value']).replace('-', 'm')
                elif 'type' in a:
                    name += '_' + sanitize(a['type']['qualType'])
                else:
                    name += '_T'
        return name

    def _name_functions(self):
        groups = {}
        for key, info in self.funcs.items():
            groups.setdefault(self._base_name(info), []).append(info)
        for base, infos in groups.items():
            if len(infos) == 1:
                infos[0]['cname'] = base
                continue
            seen = {}
            for info in infos:
                sig = '_'.join(sanitize(p['type']['qualType']) for p in params_of(info['node'])) or 'void'
                cn = base + '__' + sig
                if info['node']['type']['qualType'].rstrip().endswith('const'):
                    pass
                if cn in seen:
                    cn = cn + '_' + hashlib.sha1(info['key'].encode()).hexdigest()[:6]
                seen[cn] = 1
                info['cname'] = cn
        self.by_cname = {info['cname']: info for info in self.funcs.values()}

    def lookup(self, cname):
        info = self.by_cname.get(cname)
        if info is None:
            raise Drift('function %s not found in the extracted translation units (renamed or removed?)' % cname)
        return info


class Emitter:
    def __init__(self, prog, contracts=None, loopc=None, nobody=(), hooks=None, force_globals=(), stubs=()):
        self.stubs = set(stubs)
        self.p = prog
        self.contracts = contracts or {}
        self.loopc = loopc or {}
        self.nobody = set(nobody)
        self.hooks = hooks or {}
        self.needed_funcs = OrderedDict()
        self.needed_globals = OrderedDict((g, True) for g in force_globals)
        self.needed_records = OrderedDict()
        self.loops = []           # (cname, ordinal, header text)
        self.dropped_fields = []
        self.rule_hits = {}
        self.macro_names = set(self.p.enum_const) | set(self.p.globals)   # a local shadowing a global (possibly a #define'd constant) is renamed
        self.cur_fn = None
        self.local_ren = {}
        self.tmp_no = 0
        self.const_placeholders = OrderedDict()
        self._field_ok = {}

    def hit(self, rule):
        self.rule_hits[rule] = self.rule_hits.get(rule, 0) + 1

    # ------------------------------------------------------------------ types
    def ctype(self, t):
        return self.ctype_s(qt(t))

    def ctype_s(self, q):
        q = q.strip()
        const = ''
        while True:
            if q.startswith('const '):
                const = 'const '
                q = q[6:].strip()
                continue
            if q.endswith(' const'):
                const = 'const '
                q = q[:-6].strip()
                continue
            break
        if q.endswith('&&'):
            raise Unsupported('rvalue reference type ' + q)
        if q.endswith('&') and self.byval_ref(const + q):
            self.hit('const T& of a scalar / small struct -> by value')
            return self.ctype_s(q[:-1].strip())
        if q.endswith('&'):
            inner = self.ctype_s(const + q[:-1].strip())
            if inner.startswith('VECVIEW:'):
                return inner[8:] + ' *'
            return inner + ' *'
        if q.endswith('*const'):
            q = q[:-5].strip()
        if q.endswith('*'):
            return self.ctype_s(const + q[:-1].strip()) + ' *'
        for pre in ('struct ', 'class ', 'enum '):
            if q.startswith(pre):
                q = q[len(pre):]
        if q in BUILTIN:
            return const + BUILTIN[q]
        if re.fullmatch(r'u?int\d+_t', q):
            return const + q
        m = re.fullmatch(r'std::array<(.*), (\d+)>', q)
        if m:
            raise Unsupported('std::array outside a declarator: ' + q)
        m = re.fullmatch(r'std::vector<(.*?)(, std::allocator<.*>)?>', q)
        if m:
            self.hit('std::vector<T> (reference parameter) -> array view T*')
            return 'VECVIEW:' + const + self.ctype_s(m.group(1))
        q2 = q.split('::')[-1] if '<' not in q else q
        if q2 in self.p.enums:
            return const + q2
        if q2 in self.p.records:
            self.needed_records[q2] = True
            return const + 'struct ' + q2
        if q2 in self.p.aliases:
            return const + self.ctype(self.p.aliases[q2]['type'])
        if re.fullmatch(r'(std::)?(__cxx11::)?(string|basic_string<char>)', q) or q == 'std::string':
            self.hit('std::string -> struct verif_string (fixed-capacity character buffer; assumed binding)')
            self.bindings_used['std::string'] = ('string', '')
            return const + 'struct verif_string'
        if q in ('std::chrono::duration<long, std::ratio<1, 1000>>::rep',):
            return const + 'int64_t'
        raise Unsupported('type ' + q)

    def decl(self, t, name):
        q = qt(t)
        m = re.match(r'^(.*?)((\[\d+\])+)$', q)
        if m:
            return self.ctype_s(m.group(1)) + ' ' + name + m.group(2)
        m = re.fullmatch(r'(const )?std::array<(.*), (\d+)>', q.strip())
        if m:
            self.hit('std::array<T,N> -> T[N]')
            inner = self.decl({'qualType': m.group(2)}, name + '[' + m.group(3) + ']')
            return inner
        return self.ctype_s(q) + ' ' + name

    BYVAL_STRUCTS = ('Score',)

    def byval_ref(self, q):
        """`const T&` with T arithmetic, enum or a small scalar-only struct is passed by value (no aliasing is observable:
        the callee cannot write through it and the translated callers do not modify the argument during the call)."""
        q = q.strip()
        if not q.endswith('&') or q.endswith('&&'):
            return False
        base = q[:-1].strip()
        if not (base.startswith('const ') or base.endswith(' const')):
            return False
        base = base.replace('const ', '').replace(' const', '').strip()
        b2 = base.split('::')[-1]
        if base in BUILTIN or re.fullmatch(r'u?int\d+_t', base) or b2 in self.p.enums or b2 in self.BYVAL_STRUCTS:
            return True
        if b2 in self.p.aliases:
            return self.byval_ref('const ' + qt(self.p.aliases[b2]['type']) + ' &')
        return False

    def is_ref(self, t):
        q = qt(t).rstrip()
        if self.byval_ref(q):
            return False
        return q.endswith('&')

    # ------------------------------------------------------------------ names
    def lname(self, name):
        return self.local_ren.get(name, name)

    def fname(self, key):
        info = self.p.funcs.get(key)
        if info is None:
            raise Unsupported('call to unknown function ' + str(key))
        self.needed_funcs[key] = info
        return info['cname']

    # ------------------------------------------------------------------ expressions
    def e(self, n, ctx=None):
        k = n['kind']
        m = getattr(self, 'e_' + k, None)
        if m is None:
            raise Unsupported('expression kind %s in %s' % (k, self.cur_fn))
        if k in ('CallExpr', 'CXXOperatorCallExpr', 'CXXMemberCallExpr'):
            return m(n, ctx)
        if k == 'ExprWithCleanups' and ctx == 'discard':
            return self.e(n['inner'][0], ctx)      # a full expression with temporaries used as a statement: the value is still discarded
        return m(n)

    def e_ImplicitCastExpr(self, n):
        ck = n['castKind']
        if ck == 'LValueToRValue':
            return self.e(n['inner'][0], ctx='rvalue')
        inner = self.e(n['inner'][0])
        if ck in ('ArrayToPointerDecay', 'FunctionToPointerDecay', 'NoOp', 'BuiltinFnToFnPtr'):
            return inner
        if ck == 'FloatingToIntegral':
            b = self.ftrunc_mul(n)
            if b is not None:
                return b
        if ck in ('IntegralCast', 'IntegralToFloating', 'FloatingToIntegral', 'FloatingCast'):
            return '((%s)%s)' % (self.ctype(n['type']), inner)
        if ck in ('IntegralToBoolean', 'PointerToBoolean', 'FloatingToBoolean'):
            return '(%s != 0)' % inner
        if ck == 'NullToPointer':
            return '((%s)0)' % self.ctype(n['type'])
        if ck == 'UncheckedDerivedToBase':
            self.hit('UncheckedDerivedToBase -> base sub-object is the leading fields')
            return inner
        if ck == 'ConstructorConversion':
            return inner
        raise Unsupported('castKind %s in %s' % (ck, self.cur_fn))

    def ftrunc_mul(self, n):
        """(integer)(<double literal> * (double)<int expression>)  ->  verif_ftrunc_mul(literal, expression).
        The binding's body is the same floating-point computation; a job may replace the call by an integer contract
        that is validated by exhaustive native enumeration (SAT back ends do not decide 53-bit multipliers)."""
        x = n['inner'][0]
        while x['kind'] == 'ParenExpr':
            x = x['inner'][0]
        if x['kind'] != 'BinaryOperator' or x.get('opcode') != '*' or self.ctype(n['type']) != 'int64_t':
            return None
        a, b = x['inner']
        def lit(y):
            return y if y['kind'] == 'FloatingLiteral' and y['type']['qualType'] == 'double' else None
        def conv(y):
            if y['kind'] == 'ImplicitCastExpr' and y.get('castKind') == 'IntegralToFloating' and self.ctype(y['inner'][0]['type']) == 'int':
                return y['inner'][0]
            return None
        c, e = (lit(a), conv(b)) if lit(a) is not None else (lit(b), conv(a))
        if c is None or e is None:
            return None
        self.hit('(int64)(double literal * (double)int) -> verif_ftrunc_mul binding (same computation; integer contract optional)')
        self.bindings_used['ftrunc_mul'] = ('ftrunc_mul', '')
        return 'verif_ftrunc_mul(%s, %s)' % (self.e(c), self.e(e))

    def e_CStyleCastExpr(self, n):
        ck = n.get('castKind')
        if ck in ('NoOp', 'ConstructorConversion'):
            return self.e(n['inner'][0])
        if ck == 'ToVoid':
            return '((void)%s)' % self.e(n['inner'][0])
        return '((%s)%s)' % (self.ctype(n['type']), self.e(n['inner'][0]))
    e_CXXFunctionalCastExpr = e_CStyleCastExpr
    e_CXXStaticCastExpr = e_CStyleCastExpr

    def e_ParenExpr(self, n):
        return '(' + self.e(n['inner'][0]) + ')'

    def e_ConstantExpr(self, n):
        return self.e(n['inner'][0])

    def e_SubstNonTypeTemplateParmExpr(self, n):
        return self.e(n['inner'][-1])

    def e_ExprWithCleanups(self, n):
        return self.e(n['inner'][0])

    def e_MaterializeTemporaryExpr(self, n):
        return self.e(n['inner'][0])

    def e_CXXBindTemporaryExpr(self, n):
        return self.e(n['inner'][0])

    def e_IntegerLiteral(self, n):
        t = n['type']['qualType']
        v = n['value']
        suf = {'unsigned long': 'UL', 'long': 'L', 'unsigned int': 'U', 'unsigned long long': 'ULL',
               'long long': 'LL'}.get(t, '')
        return v + suf

    def e_CXXBoolLiteralExpr(self, n):
        return '1' if n['value'] else '0'

    def e_CharacterLiteral(self, n):
        return str(n['value'])

    def e_FloatingLiteral(self, n):
        v = n['value']
        t = n['type']['qualType']
        if not re.search(r'[.eE]|inf|nan', v):
            v = v + '.0'
        if t == 'float':
            return v + 'f'
        return v

    def e_CXXNullPtrLiteralExpr(self, n):
        return '((void*)0)'

    def e_UnaryExprOrTypeTraitExpr(self, n):
        if n.get('name') != 'sizeof':
            raise Unsupported('type trait ' + str(n.get('name')))
        if 'argType' in n:
            q = qt(n['argType'])
            m = re.match(r'^(.*?)((\[\d+\])+)$', q)
            if m:
                dims = re.findall(r'\[(\d+)\]', m.group(2))
                return '(sizeof(%s)%s)' % (self.ctype_s(m.group(1)), ''.join('*%s' % d for d in dims))
            return 'sizeof(%s)' % self.ctype_s(q)
        return 'sizeof(%s)' % self.e(n['inner'][0])

    def e_DeclRefExpr(self, n):
        r = n['referencedDecl']
        rk = r['kind']
        if rk == 'EnumConstantDecl':
            return r['name']
        if rk in ('FunctionDecl', 'CXXMethodDecl'):
            key = self.p.func_by_id.get(r['id'])
            if key is None:
                raise Unsupported('reference to unknown function ' + r['name'])
            return self.fname(key)
        if rk == 'ParmVarDecl':
            nm = self.lname(r['name'])
            return '(*%s)' % nm if self.is_ref(r['type']) else nm
        if rk == 'VarDecl':
            if r['id'] in self.local_ids:
                nm = self.lname(r['name'])
                return '(*%s)' % nm if self.is_ref(r['type']) else nm
            g = self.p.global_by_id.get(r['id'])
            cn = g['_cname'] if g is not None and '_cname' in g else r['name']
            if cn not in self.p.globals:
                raise Unsupported('reference to unknown variable ' + r['name'])
            self.needed_globals[cn] = True
            return cn
        if rk == 'NonTypeTemplateParmDecl':
            raise Unsupported('uninstantiated template parameter ' + r['name'])
        raise Unsupported('DeclRefExpr to ' + rk)

    def e_BinaryOperator(self, n):
        a, b = n['inner']
        op = n['opcode']
        if op in ('<<', '<<='):
            t = self.ctype(n['type'])
            ut = {'int': 'unsigned int', 'int64_t': 'uint64_t', 'long long': 'unsigned long long', 'int32_t': 'uint32_t',
                  'int16_t': 'unsigned int', 'int8_t': 'unsigned int'}.get(t)
            if ut and op == '<<':
                # C++20 [expr.shift]: E1 << E2 on a signed type is the value congruent modulo 2^N (no overflow UB as in C)
                self.hit('signed << -> computed in the unsigned type (C++20 modular semantics)')
                return '((%s)((%s)%s << %s))' % (t, ut, self.e(a), self.e(b))
            if ut:
                raise Unsupported('signed <<= in ' + str(self.cur_fn))
        return '(%s %s %s)' % (self.e(a), op, self.e(b))
    e_CompoundAssignOperator = e_BinaryOperator

    def e_UnaryOperator(self, n):
        x = self.e(n['inner'][0])
        op = n['opcode']
        return '(%s%s)' % (x, op) if n.get('isPostfix') else '(%s%s)' % (op, x)

    def e_ConditionalOperator(self, n):
        c, a, b = n['inner']
        return '(%s ? %s : %s)' % (self.e(c), self.e(a), self.e(b))

    def e_ArraySubscriptExpr(self, n):
        a, b = n['inner']
        return '%s[%s]' % (self.e(a), self.e(b))

    def e_InitListExpr(self, n):
        return self.init(n)

    def e_ImplicitValueInitExpr(self, n):
        return '0'

    def e_CXXDefaultArgExpr(self, n):
        raise Unsupported('default argument outside a call')

    def addr_of(self, s):
        if s.startswith('(*') and s.endswith(')') and self._balanced(s[2:-1]):
            return s[2:-1]
        return '&' + s

    @staticmethod
    def _balanced(s):
        d = 0
        for ch in s:
            if ch == '(':
                d += 1
            elif ch == ')':
                d -= 1
                if d < 0:
                    return False
        return d == 0

    def args(self, fnode, argn):
        params = params_of(fnode)
        out = []
        for i, a in enumerate(argn):
            if a['kind'] == 'CXXDefaultArgExpr':
                p = params[i]
                init = [x for x in p.get('inner', []) if x.get('kind') not in ('FullComment',)]
                if not init:
                    raise Unsupported('default argument without initialiser')
                self.hit('CXXDefaultArgExpr -> the parameter default')
                out.append(self.e(init[0]))
                continue
            if i < len(params) and self.is_ref(params[i]['type']):
                s = self.e(a)
                if a['kind'] in ('MaterializeTemporaryExpr', 'ExprWithCleanups') or a.get('valueCategory') == 'prvalue':
                    # binding a temporary to a const reference: needs a named temporary
                    raise Unsupported('temporary bound to reference parameter in call inside ' + str(self.cur_fn))
                out.append(self.addr_of(s))
            else:
                out.append(self.e(a))
        return out

    def callee_decl(self, n):
        c = n['inner'][0]
        while c['kind'] in ('ImplicitCastExpr', 'ParenExpr'):
            c = c['inner'][0]
        return c

    def returns_ref(self, fnode):
        rt = fnode['type']['qualType']
        rt = rt[:rt.index('(')].strip()
        return rt.endswith('&')

    def e_CallExpr(self, n, ctx=None):
        c = self.callee_decl(n)
        if c['kind'] != 'DeclRefExpr':
            raise Unsupported('indirect call in ' + str(self.cur_fn))
        r = c['referencedDecl']
        nm = r['name']
        argn = n['inner'][1:]
        if nm.startswith('__builtin_'):
            return '%s(%s)' % (nm, ', '.join(self.e(a) for a in argn))
        key = self.p.func_by_id.get(r['id'])
        if key is None:
            return self.library_call(nm, n, argn)
        info = self.p.funcs[key]
        if self.returns_ref(info['node']):
            if ctx not in ('rvalue', 'discard'):
                raise Unsupported('reference-returning call %s used as an lvalue in %s' % (nm, self.cur_fn))
            self.hit('T& return of an operator -> value return (result only read or discarded)')
        return '%s(%s)' % (self.fname(key), ', '.join(self.args(info['node'], argn)))

    def library_call(self, nm, n, argn):
        """The binding table: library entities with an assumed contract (listed in the evidence)."""
        t = self.ctype(n['type']).replace('const ', '') if qt(n['type']) != 'void' else 'void'
        if nm in ('max', 'min') and len(argn) == 2:
            self.hit('std::%s -> verif_%s_<type>' % (nm, nm))
            self.bindings_used['%s_%s' % (nm, sanitize(t))] = (nm, t)
            return 'verif_%s_%s(%s, %s)' % (nm, sanitize(t), self.e(argn[0]), self.e(argn[1]))
        if nm == 'abs' and len(argn) == 1:
            self.hit('abs -> verif_abs_<type>')
            self.bindings_used['abs_%s' % sanitize(t)] = ('abs', t)
            return 'verif_abs_%s(%s)' % (sanitize(t), self.e(argn[0]))
        if nm in ('begin', 'end') and len(argn) == 1:
            at = qt(argn[0]['type'])
            m = re.match(r'^(.*?)\[(\d+)\]$', at)
            if m:
                self.hit('std::begin/std::end of a built-in array -> pointer / pointer + N')
                a = self.e(argn[0])
                return '(&%s[0])' % a if nm == 'begin' else '(&%s[0] + %s)' % (a, m.group(2))
        if nm == 'find' and len(argn) == 3 and t.endswith('*'):
            self.hit('std::find on a pointer range -> verif_find_<type> (linear search)')
            et = t.replace('const ', '').replace('*', '').strip()
            self.bindings_used['find_' + sanitize(et)] = ('find', et)
            return 'verif_find_%s(%s, %s, %s)' % (sanitize(et), self.e(argn[0]), self.e(argn[1]), self.e(argn[2]))
        if nm in ('pow', 'exp', 'log', 'floor', 'sqrt') and t == 'double':
            self.hit('libm %s -> verif_%s (assumed contract)' % (nm, nm))
            self.bindings_used[nm] = (nm, t)
            return 'verif_%s(%s)' % (nm, ', '.join(self.e(a) for a in argn))
        raise Unsupported('call to library/unknown function %s in %s' % (nm, self.cur_fn))

    def e_CXXOperatorCallExpr(self, n, ctx=None):
        c = self.callee_decl(n)
        if c['kind'] == 'DeclRefExpr':
            r = c['referencedDecl']
            key = self.p.func_by_id.get(r['id'])
            if key is None:
                # operators of bound library types
                a0t = qt(n['inner'][1]['type'])
                if r['name'] == 'operator[]' and re.match(r'(const )?std::array<', a0t):
                    self.hit('std::array::operator[] -> array subscript')
                    return '%s[%s]' % (self.e(n['inner'][1]), self.e(n['inner'][2]))
                if r['name'] == 'operator[]' and re.match(r'(const )?std::vector<', a0t) and self.vec_view_field(n['inner'][1]) is not None:
                    self.hit('std::vector field kept as a read-only view {data, size}: operator[]')
                    return '%s__data[%s]' % (self.e(self.vec_view_field(n['inner'][1])), self.e(n['inner'][2]))
                if r['name'] == 'operator[]' and re.match(r'(const )?std::vector<', a0t):
                    self.hit('std::vector::operator[] -> array subscript on the view')
                    base = self.e(n['inner'][1])
                    if base.startswith('(*') and base.endswith(')') and self._balanced(base[2:-1]):
                        base = base[2:-1]
                    return '%s[%s]' % (base, self.e(n['inner'][2]))
                if 'basic_string<char>' in a0t or a0t.endswith('std::string'):
                    if r['name'] == 'operator[]':
                        self.hit('std::string::operator[] -> verif_str_at (asserts index <= size)')
                        return '(*verif_str_at(%s, %s))' % (self.addr_of(self.e(n['inner'][1])), self.e(n['inner'][2]))
                    if r['name'] == 'operator+=' and qt(n['inner'][2]['type']).endswith('value_type') or \
                            (r['name'] == 'operator+=' and qt(n['inner'][2]['type']) == 'char'):
                        if ctx not in ('discard',):
                            raise Unsupported('value of std::string += used')
                        self.hit('std::string::operator+=(char) -> verif_str_push (asserts capacity)')
                        return 'verif_str_push(%s, %s)' % (self.addr_of(self.e(n['inner'][1])), self.e(n['inner'][2]))
                raise Unsupported('operator call %s on %s in %s' % (r['name'], a0t, self.cur_fn))
            info = self.p.funcs[key]
            if r['name'] == 'operator=' and (info['node'].get('isImplicit') or info['node'].get('explicitlyDefaulted')):
                self.hit('implicit/defaulted copy or move assignment of a record -> struct assignment')
                return '(%s = %s)' % (self.e(n['inner'][1]), self.e(n['inner'][2]))
            if info['rec'] is not None and info['node']['kind'] == 'CXXMethodDecl':
                # member operator: first argument is the object
                obj = self.addr_of(self.e(n['inner'][1]))
                rest = self.args(info['node'], n['inner'][2:])
                if self.returns_ref(info['node']) and ctx not in ('rvalue', 'discard'):
                    raise Unsupported('reference-returning member operator used as lvalue in %s' % self.cur_fn)
                return '%s(%s)' % (self.fname(key), ', '.join([obj] + rest))
        return self.e_CallExpr(n, ctx)

    def e_CXXMemberCallExpr(self, n, ctx=None):
        me = n['inner'][0]
        while me['kind'] in ('ParenExpr',):
            me = me['inner'][0]
        if me['kind'] != 'MemberExpr':
            raise Unsupported('member call shape in ' + str(self.cur_fn))
        key = self.p.func_by_id.get(me['referencedMemberDecl'])
        if key is None:
            return self.library_member_call(me, n)
        info = self.p.funcs[key]
        if info['node'].get('virtual'):
            raise Unsupported('virtual call to %s in %s' % (info['cname'], self.cur_fn))
        base = me['inner'][0]
        bs = self.e(base)
        obj = bs if me.get('isArrow') else self.addr_of(bs)
        if self.returns_ref(info['node']) and ctx not in ('rvalue', 'discard'):
            raise Unsupported('reference-returning method used as lvalue in %s' % self.cur_fn)
        if info.get('static_method'):
            return '%s(%s)' % (self.fname(key), ', '.join(self.args(info['node'], n['inner'][1:])))
        return '%s(%s)' % (self.fname(key), ', '.join([obj] + self.args(info['node'], n['inner'][1:])))

    def vec_view_field(self, n):
        """n is (after parens / implicit casts) a MemberExpr naming a std::vector field that the job asked to keep as a read-only view"""
        while n.get('kind') in ('ParenExpr', 'ImplicitCastExpr'):
            n = n['inner'][0]
        if n.get('kind') == 'MemberExpr' and n.get('name') in (self.hooks.get('vector_view_fields') or ()):
            return n
        return None

    def library_member_call(self, me, n):
        bt = qt(me['inner'][0]['type'])
        vf = self.vec_view_field(me['inner'][0])
        if vf is not None and len(n['inner']) == 1 and me.get('name') in ('empty', 'size', 'front'):
            self.hit('std::vector field kept as a read-only view {data, size}: .%s()' % me.get('name'))
            b = self.e(vf)
            return {'empty': '(%s__size == 0)', 'size': '%s__size', 'front': '%s__data[0]'}[me['name']] % b
        if me.get('name') == 'count' and 'std::chrono::duration' in bt:
            self.hit('std::chrono duration .count() -> verif_elapsed_ms() (non-negative nondeterministic clock reading)')
            self.bindings_used['elapsed'] = ('elapsed', '')
            return 'verif_elapsed_ms()'
        if me.get('name') == 'data' and re.match(r'(const )?std::array<', bt) and len(n['inner']) == 1:
            self.hit('std::array::data -> address of the first element')
            return '(&%s[0])' % self.e(me['inner'][0])
        if ('basic_string<char>' in bt or bt.endswith('std::string')) and me.get('name') in ('size', 'length') and len(n['inner']) == 1:
            self.hit('std::string::size -> .n')
            bs = self.e(me['inner'][0])
            return '(%s)->n' % self.addr_of(bs)
        raise Unsupported('member call to library method %s in %s' % (me.get('name'), self.cur_fn))

    def field_dropped(self, n):
        """member of a record whose type is outside the subset (dropped from the emitted struct)"""
        t = n.get('type')
        if t is None:
            return False
        if n.get('name') in (self.hooks.get('drop_fields') or ()):
            return True
        if n.get('name') in (self.hooks.get('vector_view_fields') or ()):
            return False
        key = qt(t)
        if key in self._field_ok:
            return not self._field_ok[key]
        saved = (dict(self.needed_records), dict(self.bindings_used), dict(self.rule_hits))
        try:
            ok = 'VECVIEW' not in self.decl(t, 'x')
        except Unsupported:
            ok = False
            self.needed_records, self.bindings_used, self.rule_hits = OrderedDict(saved[0]), OrderedDict(saved[1]), saved[2]
        self._field_ok[key] = ok
        return not ok

    def e_MemberExpr(self, n):
        base = n['inner'][0]
        if self.field_dropped(n) and 'referencedMemberDecl' in n and n['referencedMemberDecl'] not in self.p.func_by_id:
            raise Unsupported('member %s has a type outside the subset (field dropped) in %s' % (n.get('name'), self.cur_fn))
        bs = self.e(base)
        name = n['name']
        if n.get('isArrow'):
            return '%s->%s' % (bs, name)
        if bs.startswith('(*') and bs.endswith(')') and self._balanced(bs[2:-1]):
            return '%s->%s' % (bs[2:-1], name)
        return '%s.%s' % (bs, name)

    def e_CXXThisExpr(self, n):
        return 'self'

    def e_CXXConstructExpr(self, n):
        # copy/move construction of a record from an lvalue/prvalue of the same type: the value itself
        inner = n.get('inner', [])
        ctor = n.get('ctorType', {}).get('qualType', '')
        if len(inner) == 1 and (n.get('elidable') or re.search(r'\((const )?[\w:<>, ]+ ?&&?\)', ctor)):
            self.hit('copy/move construction -> struct value copy')
            return self.e(inner[0])
        return self.construct(n)

    def str_from(self, n):
        k = n['kind']
        if k in ('ImplicitCastExpr', 'ParenExpr'):
            return self.str_from(n['inner'][0])
        if k == 'StringLiteral':
            v = n['value']
            body = json.loads(v)
            if len(body) > 15:
                raise Unsupported('string literal longer than the verif_string capacity')
            return '((struct verif_string){%s, %d})' % (v, len(body))
        if k == 'ConditionalOperator':
            c, a, b = n['inner']
            return '(%s ? %s : %s)' % (self.e(c), self.str_from(a), self.str_from(b))
        raise Unsupported('std::string constructed from a non-literal in ' + str(self.cur_fn))

    def simple_ctor(self, rec, ctor_type, nargs):
        """constructor whose body is empty and whose initialisers set fields from parameters/constants ->
        list of (field, param index or expression node)"""
        for c in rec.get('inner', []):
            if c.get('kind') != 'CXXConstructorDecl' or c['type']['qualType'] != ctor_type:
                continue
            body = func_body(c)
            if body is None or body.get('inner'):
                return None
            ps = params_of(c)
            if len(ps) != nargs:
                continue
            pid = {p['id']: i for i, p in enumerate(ps)}
            out = []
            for ini in c.get('inner', []):
                if ini.get('kind') != 'CXXCtorInitializer':
                    continue
                if 'anyInit' not in ini:
                    return None
                out.append((ini['anyInit']['name'], ini['inner'][0], pid))
            return out
        return None

    def construct(self, n):
        ct = n.get('ctorType', {}).get('qualType', '')
        rq = qt(n['type']).replace('const ', '').strip().split('::')[-1]
        rec = self.p.records.get(rq)
        if rec is not None:
            args = [a for a in n.get('inner', []) if a.get('kind') != 'CXXDefaultArgExpr']
            sc = self.simple_ctor(rec, ct, len(args))
            if sc is not None:
                self.hit('constructor with initialiser list only -> compound literal')
                argtxt = [self.e(a) for a in args]
                fields = {}
                for fld, expr, pid in sc:
                    fields[fld] = self.subst_params(expr, pid, argtxt)
                order = [c['name'] for c in rec.get('inner', []) if c.get('kind') == 'FieldDecl']
                self.needed_records[rq] = True
                return '((struct %s){%s})' % (rq, ', '.join(fields.get(f, '0') for f in order))
        if 'basic_string' in qt(n['type']) or qt(n['type']).endswith('std::string'):
            if ct.startswith('void (const char *'):
                self.hit('std::string(const char*) from a literal -> compound literal')
                return self.str_from(n['inner'][0])
        raise Unsupported('constructor call %s in %s' % (n.get('ctorType', {}).get('qualType'), self.cur_fn))

    e_CXXTemporaryObjectExpr = e_CXXConstructExpr

    def subst_params(self, expr, pid, argtxt):
        """print a constructor initialiser expression with its parameters replaced by the (already printed) arguments"""
        saved = self.e_DeclRefExpr
        def dre(n2):
            r = n2['referencedDecl']
            if r['kind'] == 'ParmVarDecl' and r['id'] in pid:
                return '(' + argtxt[pid[r['id']]] + ')'
            return saved(n2)
        self.e_DeclRefExpr = dre
        try:
            return self.e(expr)
        finally:
            del self.e_DeclRefExpr

    # ------------------------------------------------------------------ initialisers
    def init(self, n):
        if n['kind'] == 'InitListExpr':
            if 'array_filler' in n:
                items = [x for x in n['array_filler'] if x['kind'] != 'ImplicitValueInitExpr']
                return '{' + ', '.join(self.init(x) for x in items) + '}'
            items = n.get('inner', [])
            if not items:
                return '{0}'
            return '{' + ', '.join(self.init(x) for x in items) + '}'
        if n['kind'] == 'ImplicitValueInitExpr':
            return '0'
        return self.e(n)

    # ------------------------------------------------------------------ statements
    def is_empty_do(self, n):
        if n['kind'] != 'DoStmt':
            return False
        body, cond = n['inner']
        if body['kind'] != 'CompoundStmt' or body.get('inner'):
            return False
        c = cond
        while c['kind'] in ('ImplicitCastExpr', 'ParenExpr'):
            c = c['inner'][0]
        return c['kind'] == 'CXXBoolLiteralExpr' and not c['value']

    def s(self, n, ind):
        k = n['kind']
        p = '  ' * ind
        if k == 'CompoundStmt':
            return p + '{\n' + ''.join(self.s(c, ind + 1) for c in n.get('inner', [])) + p + '}\n'
        if k == 'DeclStmt':
            out = ''
            for v in n['inner']:
                if v['kind'] in ('StaticAssertDecl', 'TypeAliasDecl', 'TypedefDecl', 'UsingDecl'):
                    continue
                if v['kind'] != 'VarDecl':
                    raise Unsupported('local declaration of kind ' + v['kind'])
                if self.is_chrono(v['type']):
                    self.hit('local std::chrono object dropped (clock readings are bound to verif_elapsed_ms)')
                    continue
                if not self.refs_decl(self.cur_body, v['id']):
                    try:
                        if 'VECVIEW' in self.decl(v['type'], 'x'):
                            raise Unsupported('vector local')
                    except Unsupported:
                        self.hit('unused local of a type outside the subset dropped')
                        continue
                out += p + self.local_var(v) + ';\n'
            return out
        if k == 'ReturnStmt':
            if n.get('inner'):
                if self.cur_ret_ref:
                    # reference-returning operator emitted as value-returning: evaluate, return value
                    return p + 'return ' + self.e(n['inner'][0], ctx='rvalue') + ';\n'
                return p + 'return ' + self.e(n['inner'][0], ctx='rvalue') + ';\n'
            return p + 'return;\n'
        if k == 'IfStmt':
            if n.get('hasInit') or n.get('hasVar'):
                raise Unsupported('if with init-statement / condition variable')
            inner = n['inner']
            out = p + 'if (' + self.e(inner[0]) + ')\n' + self.s_block(inner[1], ind)
            if len(inner) > 2:
                out += p + 'else\n' + self.s_block(inner[2], ind)
            return out
        if k == 'WhileStmt':
            if n.get('hasVar'):
                raise Unsupported('while with condition variable')
            hdr = 'while (' + self.e(n['inner'][0]) + ')'
            return p + hdr + '\n' + self.loop_contract(p, hdr) + self.s_block(n['inner'][1], ind)
        if k == 'DoStmt':
            if self.is_empty_do(n):
                self.hit('empty do{}while(false) left by ASSERT/LOG macros -> ;')
                return p + ';\n'
            hdr = 'while (' + self.e(n['inner'][1]) + ')'
            lc = self.loop_contract(p, 'do ' + hdr)
            return p + 'do\n' + lc + self.s_block(n['inner'][0], ind) + p + hdr + ';\n'
        if k == 'ForStmt':
            init, condvar, cond, inc, body = n['inner']
            if condvar and condvar.get('kind'):
                raise Unsupported('for with condition variable')
            si = ''
            if init and init.get('kind'):
                si = self.s(init, 0).strip().rstrip(';') if init['kind'] == 'DeclStmt' else self.e(init, ctx='discard')
                if '\n' in si:
                    raise Unsupported('for-init declaring several variables')
            sc = self.e(cond) if cond and cond.get('kind') else ''
            sn = self.e(inc, ctx='discard') if inc and inc.get('kind') else ''
            hdr = 'for (%s; %s; %s)' % (si, sc, sn)
            return p + hdr + '\n' + self.loop_contract(p, hdr) + self.s_block(body, ind)
        if k == 'CXXForRangeStmt':
            return self.range_for(n, ind)
        if k == 'SwitchStmt':
            if n.get('hasInit') or n.get('hasVar'):
                raise Unsupported('switch with init')
            return p + 'switch (' + self.e(n['inner'][0]) + ')\n' + self.s_block(n['inner'][1], ind)
        if k == 'CaseStmt':
            return p + 'case ' + self.e(n['inner'][0]) + ':\n' + ''.join(self.s(c, ind + 1) for c in n['inner'][1:])
        if k == 'DefaultStmt':
            return p + 'default:\n' + ''.join(self.s(c, ind + 1) for c in n['inner'])
        if k == 'BreakStmt':
            return p + 'break;\n'
        if k == 'ContinueStmt':
            return p + 'continue;\n'
        if k == 'NullStmt':
            return p + ';\n'
        if k == 'CXXThrowExpr' or (k == 'ExprWithCleanups' and n['inner'][0]['kind'] == 'CXXThrowExpr'):
            self.hit('throw E -> verif_throw() (obligation: not reached; E not evaluated)')
            self.bindings_used['throw'] = ('throw', '')
            return p + 'verif_throw();\n'
        if k in ('CXXTryStmt', 'GotoStmt', 'LabelStmt', 'CoreturnStmt'):
            raise Unsupported('statement kind %s in %s' % (k, self.cur_fn))
        hook = self.hooks.get('stmt')
        if hook:
            r = hook(self, n, p)
            if r is not None:
                return r
        d = self.droppable(n)
        if d:
            self.hit(d)
            return p + '; /* %s */\n' % d
        return p + self.e(n, ctx='discard') + ';\n'

    CHRONO = ('std::chrono::', 'TimePoint', 'time_point')

    def is_chrono(self, t):
        q = t.get('qualType', '') + ' ' + t.get('desugaredQualType', '')
        return any(c in q for c in self.CHRONO)

    def droppable(self, n):
        """statements that only update state of a type outside the subset which no verified function reads back"""
        x = n
        while x.get('kind') in ('ExprWithCleanups', 'ParenExpr'):
            x = x['inner'][0]
        if x.get('kind') == 'CXXOperatorCallExpr':
            c = self.callee_decl(x)
            if c.get('kind') == 'DeclRefExpr' and c['referencedDecl'].get('name') == 'operator=' and self.is_chrono(x['inner'][1]['type']):
                return 'assignment to a std::chrono object dropped (clock readings are bound to verif_elapsed_ms)'
            if c.get('kind') == 'DeclRefExpr' and c['referencedDecl'].get('name') == 'operator=':
                # class-type assignment whose target is (an element of) a record field that was dropped from the struct
                lhs = x['inner'][1]
                while lhs.get('kind') in ('ParenExpr', 'ImplicitCastExpr', 'ArraySubscriptExpr') or \
                        (lhs.get('kind') == 'CXXOperatorCallExpr' and self.callee_decl(lhs).get('referencedDecl', {}).get('name') == 'operator[]'):
                    lhs = lhs['inner'][1] if lhs.get('kind') == 'CXXOperatorCallExpr' else lhs['inner'][0]
                if lhs.get('kind') == 'MemberExpr' and self.field_dropped(lhs):
                    return 'write to a dropped record field (%s) dropped' % lhs.get('name')
        if x.get('kind') == 'BinaryOperator' and x.get('opcode') == '=':
            lhs = x['inner'][0]
            while lhs.get('kind') == 'ParenExpr':
                lhs = lhs['inner'][0]
            if lhs.get('kind') == 'MemberExpr' and self.field_dropped(lhs) and not self._has_effect_call(x['inner'][1]):
                return 'write to a dropped record field (%s) dropped' % lhs.get('name')
        return None

    def refs_decl(self, n, did):
        if not isinstance(n, dict):
            return False
        if n.get('kind') == 'DeclRefExpr' and n.get('referencedDecl', {}).get('id') == did:
            return True
        return any(self.refs_decl(c, did) for c in n.get('inner', []))

    def s_block(self, n, ind):
        if n['kind'] == 'CompoundStmt':
            return self.s(n, ind)
        return '  ' * ind + '{\n' + self.s(n, ind + 1) + '  ' * ind + '}\n'

    def range_for(self, n, ind):
        """range-for over a braced list of constants -> the body once per element (only this shape)."""
        inner = n['inner']
        rng = inner[1]
        def find(node, kind):
            if not isinstance(node, dict):
                return None
            if node.get('kind') == kind:
                return node
            for c in node.get('inner', []):
                r = find(c, kind)
                if r is not None:
                    return r
            return None
        il = find(rng, 'InitListExpr')
        if il is None or find(rng, 'CXXStdInitializerListExpr') is None:
            raise Unsupported('range-based for over something other than a braced list in ' + str(self.cur_fn))
        loopvar = inner[-2]['inner'][0]
        body = inner[-1]
        if self.is_ref(loopvar['type']):
            raise Unsupported('range-for with a reference loop variable')
        self.hit('range-for over a braced list of constants -> unrolled sequence')
        p = '  ' * ind
        out = ''
        for item in il.get('inner', []):
            self.local_ids.add(loopvar['id'])
            out += p + '{\n' + p + '  ' + self.decl(loopvar['type'], self.lname(loopvar['name'])) + ' = ' + self.e(item) + ';\n'
            out += self.s(body, ind + 1) + p + '}\n'
        return out

    def local_var(self, v):
        self.local_ids.add(v['id'])
        name = v['name']
        if name in self.macro_names:
            self.local_ren[name] = name + '_l'
        nm = self.lname(name)
        init = [x for x in v.get('inner', []) if x.get('kind') not in ('FullComment',)]
        static = 'static ' if v.get('storageClass') == 'static' else ''
        if static:
            raise Unsupported('function-local static ' + name)
        if self.is_ref(v['type']):
            if not init:
                raise Unsupported('reference local without initialiser')
            self.hit('reference local -> pointer local')
            s = self.e(init[0])
            return '%s = %s' % (self.decl(v['type'], nm), self.addr_of(s))
        d = self.decl(v['type'], nm)
        if init:
            i0 = init[0]
            if i0['kind'] == 'CXXConstructExpr' and not i0.get('inner') and not self.record_has_user_ctor(i0):
                return d
            return d + ' = ' + self.init(i0)
        return d

    def record_has_user_ctor(self, n):
        q = qt(n['type']).replace('const ', '').strip().split('::')[-1]
        rec = self.p.records.get(q)
        if rec is None:
            raise Unsupported('default construction of ' + q)
        for c in rec.get('inner', []):
            if c.get('kind') == 'CXXConstructorDecl' and not c.get('isImplicit'):
                return True
        return False

    def loop_contract(self, p, hdr):
        self.loop_no += 1
        self.loops.append((self.cur_fn, self.loop_no, hdr))
        key = (self.cur_fn, self.loop_no)
        c = self.loopc.get(key)
        if c is None:
            return ''
        self.loopc_used.add(key)
        lines = c['lines'] if isinstance(c, dict) else c
        expect = c.get('header') if isinstance(c, dict) else None
        if expect is not None and re.sub(r'\s+', '', expect) != re.sub(r'\s+', '', hdr):
            raise Drift('loop %s#%d header changed: expected `%s`, found `%s`' % (self.cur_fn, self.loop_no, expect, hdr))
        return ''.join(p + '  ' + l + '\n' for l in lines)

    # ------------------------------------------------------------------ functions
    def ret_type(self, o):
        rt = o['type']['qualType']
        # strip parameter list (last top-level parenthesis group) and trailing qualifiers
        depth = 0
        idx = None
        for i in range(len(rt) - 1, -1, -1):
            ch = rt[i]
            if ch == ')':
                depth += 1
            elif ch == '(':
                depth -= 1
                if depth == 0:
                    idx = i
                    break
        rt = rt[:idx].strip()
        return rt

    def proto(self, info):
        o = info['def'] or info['node']
        ps = []
        is_method = info['rec'] is not None and o['kind'] != 'FunctionDecl' and not info.get('static_method')
        if is_method:
            const = 'const ' if re.search(r'\)\s*const\s*(noexcept)?\s*$', o['type']['qualType']) else ''
            self.needed_records[info['rec']['name']] = True
            ps.append(const + 'struct ' + info['rec']['name'] + ' *self')
        for i, p in enumerate(params_of(o)):
            nm = p.get('name', 'arg%d' % i)
            if nm in self.macro_names:
                nm = nm + '_l'
            ps.append(self.decl(p['type'], nm))
        if o['kind'] == 'CXXConstructorDecl':
            rts = 'void'
        else:
            rt = self.ret_type(o)
            if rt.endswith('&'):
                rts = self.ctype_s(rt[:-1].replace('const ', ''))
            else:
                rts = self.ctype_s(rt)
        return '%s %s(%s)' % (rts, info['cname'], ', '.join(ps) or 'void')

    def func(self, info):
        o = info['def']
        body = func_body(o)
        self.cur_fn = info['cname']
        self.cur_body = body
        self.loop_no = 0
        self.local_ids = set()
        self.local_ren = {}
        for i, p in enumerate(params_of(o)):
            if p.get('name') in self.macro_names:
                self.local_ren[p['name']] = p['name'] + '_l'
        rt = self.ret_type(o) if o['kind'] != 'CXXConstructorDecl' else 'void'
        self.cur_ret_ref = rt.endswith('&')
        pre = ''
        if o['kind'] == 'CXXConstructorDecl':
            pre = self.ctor_inits(info, o)
        txt = self.s(body, 0)
        if pre:
            txt = '{\n' + pre + txt[2:]
        hook = self.hooks.get('func_text')
        if hook:
            txt = hook(self, info, txt)
        return self.proto(info) + '\n' + self.contract_text(info) + txt

    def contract_text(self, info):
        """contract clauses of a function; `$k` stands for its k-th parameter (1-based, `self` not counted), so that a contract
        survives a renamed or unnamed parameter"""
        c = self.contracts.get(info['cname'], '')
        if '$' not in c:
            return c
        o = info['def'] or info['node']
        names = []
        for i, p in enumerate(params_of(o)):
            nm = p.get('name', 'arg%d' % i)
            if nm in self.macro_names:
                nm = nm + '_l'
            names.append(nm)
        def sub(m):
            k = int(m.group(1))
            if k < 1 or k > len(names):
                raise Drift('contract of %s refers to parameter $%d but the function has %d parameters' % (info['cname'], k, len(names)))
            return names[k - 1]
        return re.sub(r'\$(\d+)', sub, c)

    def stub_text(self, info):
        """The contract of a function applied at its call sites in STUB FORM: a body that asserts the preconditions, havocs exactly the
        assigns targets, and assumes the postconditions (__CPROVER_old values captured before the havoc).  Same meaning as
        goto-instrument's --replace-call-with-contract; used where the generic write-set havoc of dfcc makes the formula explode
        (pointer-valued assigns targets).  The stub's writes are still checked against the frame of the function under contract."""
        c = self.contract_text(info)
        cn = info['cname']
        proto = self.proto(info)
        rts = proto[:proto.index(cn + '(')].strip()
        clauses = []
        i = 0
        while True:
            m = re.compile(r'__CPROVER_(requires|assigns|ensures)\s*\(').search(c, i)
            if not m:
                break
            j = m.end(); depth = 1
            while depth:
                ch = c[j]
                depth += ch == '('
                depth -= ch == ')'
                j += 1
            clauses.append((m.group(1), c[m.end():j - 1]))
            i = j
        if not clauses:
            raise Drift('stub form requested for %s but it has no contract' % cn)
        olds = []

        def take_olds(e):
            out = ''; k = 0
            while True:
                q = e.find('__CPROVER_old(', k)
                if q < 0:
                    return out + e[k:]
                j = q + len('__CPROVER_old('); depth = 1
                while depth:
                    depth += e[j] == '('
                    depth -= e[j] == ')'
                    j += 1
                inner = e[q + len('__CPROVER_old('):j - 1]
                if inner not in olds:
                    olds.append(inner)
                out += e[k:q] + 'verif_old_%d' % olds.index(inner)
                k = j
        ens = [take_olds(e).replace('__CPROVER_return_value', 'verif_ret') for kind, e in clauses if kind == 'ensures']
        b = '{\n  /* contract of %s applied in stub form */\n' % cn
        for kind, e in clauses:
            if kind == 'requires':
                b += '  __CPROVER_assert(%s, "precondition of %s (contract applied at the call, stub form)");\n' % (e, cn)
        for k, e in enumerate(olds):
            b += '  __typeof__(%s) verif_old_%d = %s;\n' % (e, k, e)
        n = 0
        for kind, e in clauses:
            if kind != 'assigns':
                continue
            depth = 0; cur = ''; tg = []
            for ch in e:
                if ch == ',' and depth == 0:
                    tg.append(cur); cur = ''
                    continue
                depth += ch == '('
                depth -= ch == ')'
                cur += ch
            if cur.strip():
                tg.append(cur)
            for t in tg:
                t = t.strip()
                m = re.match(r'__CPROVER_object_whole\((.*)\)$', t)
                if m:
                    b += '  __CPROVER_havoc_object(%s);\n' % m.group(1)
                    continue
                m = re.match(r'__CPROVER_object_upto\((.*),([^,]*)\)$', t)
                if m:
                    b += '  __CPROVER_havoc_slice(%s, %s);\n' % (m.group(1), m.group(2))
                    continue
                # typed nondeterministic value; the wrapper struct makes the same line work for array-typed targets
                b += '  { struct { __typeof__(%s) v; } verif_nd_%d; *(__typeof__(verif_nd_%d) *)&(%s) = verif_nd_%d; }\n' % (t, n, n, t, n)
                n += 1
        if rts.endswith('*'):
            # a returned pointer must be built from a named object: CBMC resolves dereferences through points-to sets, which an
            # `assume(ret == ...)` on an uninitialised pointer does not feed (later writes through it would silently go nowhere)
            m = re.search(r'__CPROVER_same_object\(verif_ret,\s*([A-Za-z_][\w.\->\[\]]*)\)', ' '.join(ens))
            if not m:
                raise Drift('stub form of %s: a pointer-returning contract needs an ensures clause __CPROVER_same_object(__CPROVER_return_value, <object>)' % cn)
            b += ('  size_t verif_off; __CPROVER_assume(verif_off <= __CPROVER_OBJECT_SIZE(%s) - __CPROVER_POINTER_OFFSET(%s));\n'
                  '  %s verif_ret = (%s)((char *)(%s) + verif_off);\n' % (m.group(1), m.group(1), rts, rts, m.group(1)))
        elif rts != 'void':
            b += '  %s verif_ret;\n' % rts
        for e in ens:
            b += '  __CPROVER_assume(%s);\n' % e
        if rts != 'void':
            b += '  return verif_ret;\n'
        self.hit('contract applied in stub form (assert requires; havoc assigns; assume ensures)')
        return proto + '\n' + b + '}\n'

    def ctor_inits(self, info, o):
        out = ''
        for c in o.get('inner', []):
            if c.get('kind') != 'CXXCtorInitializer':
                continue
            if 'anyInit' not in c:
                raise Unsupported('base/delegating constructor initialiser in ' + info['cname'])
            fld = c['anyInit']['name']
            e0 = c['inner'][0]
            if e0['kind'] == 'CXXConstructExpr' and not e0.get('inner'):
                continue
            out += '  self->%s = %s;\n' % (fld, self.init(e0))
        return out

    # ------------------------------------------------------------------ globals
    def global_decl(self, o):
        init = [x for x in o.get('inner', []) if x.get('kind') not in ('FullComment',)]
        q = qt(o['type'])
        name = o.get('_cname', o['name'])
        is_arr = '[' in q or q.strip().startswith('std::array') or q.strip().startswith('const std::array')
        const = q.strip().startswith('const ')
        if init and not is_arr and const and q.replace('const ', '').strip() in BUILTIN or \
                (init and not is_arr and const and self._scalar(q)):
            # compile-time scalar constant: the value clang computes (resolved by the constant printer)
            self.const_placeholders[name] = o
            self.macro_names.add(name)
            return '#define %s ((%s)(@@CONST:%s@@))\n' % (name, self.ctype_s(q.replace('const ', '')), name)
        d = self.decl(o['type'], name)
        if init and not (init[0]['kind'] == 'CXXConstructExpr' and not init[0].get('inner')):
            if const:
                m = re.match(r'^const (.*?)\[(\d+)\]$', q.strip())
                if m and self._scalar(m.group(1)) and self._has_call(init[0]):
                    # compile-time array whose elements are computed by constexpr calls: the values the real compiler computes
                    self.hit('constexpr array with computed elements -> values from the constant printer')
                    self.const_placeholders[name] = o
                    n = int(m.group(2))
                    return 'static ' + d + ' = {' + ', '.join('(%s)(@@CONST:%s[%d]@@)' % (self.ctype_s(m.group(1)), name, i) for i in range(n)) + '};\n'
                return 'static ' + d + ' = ' + self.init(init[0]) + ';\n'
            if self._has_call(init[0]):
                # dynamic initialiser computed by calls (C has none, and an initialiser placed before the callee's prototype would make the
                # callee implicitly `int`): take the values the real program has after static initialisation, from the constant printer
                m = re.match(r'^(.*?)\[(\d+)\]$', q.strip())
                if m and self._scalar(m.group(1)):
                    self.hit('global array initialised by calls -> start-up values from the constant printer')
                    self.const_placeholders[name] = o
                    n = int(m.group(2))
                    txt = '{' + ', '.join('(%s)(@@CONST:%s[%d]@@)' % (self.ctype_s(m.group(1)), name, i) for i in range(n)) + '}'
                    self.mutable_inits[name] = (o, txt)
                    return d + ' = ' + txt + ';\n'
                raise Unsupported('global %s has an initialiser computed by calls (only arrays of scalars are supported)' % name)
            self.mutable_inits[name] = (o, self.init(init[0]))
            return d + ' = ' + self.init(init[0]) + ';\n'
        return d + ';\n'

    def _has_call(self, n):
        if not isinstance(n, dict):
            return False
        if n.get('kind') in ('CallExpr', 'CXXMemberCallExpr', 'CXXOperatorCallExpr', 'CXXConstructExpr'):
            return True
        return any(self._has_call(c) for c in n.get('inner', []))

    def _has_effect_call(self, n):
        if not isinstance(n, dict):
            return False
        k = n.get('kind')
        if k in ('CallExpr', 'CXXMemberCallExpr', 'CXXConstructExpr'):
            return True
        if k == 'CXXOperatorCallExpr':
            c = self.callee_decl(n)
            if not (c.get('kind') == 'DeclRefExpr' and c['referencedDecl'].get('name') == 'operator[]'):
                return True
        return any(self._has_effect_call(c) for c in n.get('inner', []))

    def _scalar(self, q):
        q = q.replace('const ', '').strip()
        try:
            c = self.ctype_s(q)
        except Unsupported:
            return False
        return not c.startswith('struct ') and '*' not in c

    # ------------------------------------------------------------------ driver
    def emit(self, roots):
        self.bindings_used = OrderedDict()
        self.mutable_inits = OrderedDict()
        self.loopc_used = set()
        todo = [self.p.lookup(r) for r in roots]
        for cn in self.contracts:
            if not cn.startswith('verif_'):
                self.p.lookup(cn)
        done = OrderedDict()
        bodies = OrderedDict()
        while todo:
            info = todo.pop()
            cn = info['cname']
            if cn in done:
                continue
            if info['def'] is None or cn in self.nobody:
                if info['def'] is None and cn not in self.nobody:
                    raise Unsupported('no definition found for %s (declare it in `nobody` with a contract, or add its translation unit)' % cn)
                done[cn] = (info, False)
                continue
            before = set(self.needed_funcs)
            bodies[cn] = self.func(info)
            done[cn] = (info, True)
            for key, g in list(self.needed_funcs.items()):
                if g['cname'] not in done:
                    todo.append(g)
        for key in self.loopc:
            if key not in self.loopc_used:
                raise Drift('loop contract for %s#%d matches no loop (function no longer has that loop?)' % key)
        # globals (transitively: initialisers may reference other globals)
        emitted = []
        gl_out = []

        def emit_g(g):
            if g in emitted:
                return
            emitted.append(g)
            o = self.p.globals.get(g)
            if o is None:
                raise Unsupported('global %s has no declaration' % g)
            d = self.global_decl(o)
            for h in list(self.needed_globals):
                if h not in emitted:
                    emit_g(h)
            gl_out.append(d)
        for g in list(self.needed_globals):
            emit_g(g)
        protos = []
        for cn, (info, has) in done.items():
            protos.append(self.proto(info) + ('\n' + self.contract_text(info) if not has and cn not in self.stubs else '') + ';\n')
            if not has and cn in self.stubs:
                bodies[cn] = self.stub_text(info)
        # records: emit those needed, in dependency order (fields may need other records)
        rec_out = OrderedDict()

        def emit_rec(name):
            if name in rec_out:
                return
            r = self.p.records[name]
            rec_out[name] = None
            fields = []
            for b in r.get('bases', []) or []:
                bn = b['type']['qualType'].split('::')[-1]
                emit_rec(bn)
                self.hit('base class -> leading fields')
                fields += rec_out[bn]['fields']
            for c in r.get('inner', []):
                if c.get('kind') != 'FieldDecl':
                    continue
                try:
                    if c['name'] in (self.hooks.get('drop_fields') or ()):
                        raise Unsupported('dropped on request')
                    if c['name'] in (self.hooks.get('vector_view_fields') or ()):
                        m = re.fullmatch(r'std::vector<(.*?)(, std::allocator<.*>)?>', qt(c['type']))
                        if not m:
                            raise Drift('%s::%s is no longer a std::vector' % (name, c['name']))
                        self.hit('std::vector field kept as a read-only view {data, size}')
                        fields.append('const %s *%s__data' % (self.ctype_s(m.group(1)), c['name']))
                        fields.append('size_t %s__size' % c['name'])
                        continue
                    fd = self.decl(c['type'], c['name'])
                    if 'VECVIEW' in fd:
                        raise Unsupported('vector member')
                except Unsupported as ex:
                    self.hit('record field of a type outside the subset dropped (any access to it stops the extraction)')
                    self.dropped_fields.append('%s::%s' % (name, c['name']))
                    continue
                fields.append(fd)
                if '*' not in fd:
                    for nr in re.findall(r'struct (\w+)', fd):
                        if nr not in rec_out:
                            emit_rec(nr)
            if any(c.get('kind') == 'CXXMethodDecl' and c.get('virtual') for c in r.get('inner', [])):
                self.hit('virtual table pointer dropped (no virtual call is translated)')
            rec_out[name] = {'fields': fields}
            rec_order.append(name)
        rec_order = []
        pending = list(self.needed_records)
        while pending:
            for rn in pending:
                emit_rec(rn)
            pending = [r for r in self.needed_records if r not in rec_out]
        out = ['#include <stdint.h>\n#include <stddef.h>\n']
        for name, en in self.p.enums.items():
            ut = en.get('fixedUnderlyingType', {'qualType': 'unsigned int'})
            out.append('typedef %s %s;\n' % (self.ctype(ut), name))
            for c in en['inner']:
                if c.get('kind') != 'EnumConstantDecl':
                    continue
                out.append('#define %s ((%s)(%d))\n' % (c['name'], name, self.p.enum_const[c['name']][1]))
        for name in rec_order:
            out.append('struct %s { %s; };\n' % (name, '; '.join(rec_out[name]['fields']) or 'char dummy_'))
        self.sections = {'types': ''.join(out), 'globals': ''.join(gl_out), 'protos': ''.join(protos),
                         'bodies': '\n'.join(bodies.values())}
        self.done = done
        text = self.sections['types'] + self.binding_text() + self.sections['globals'] + self.sections['protos'] + \
            '\n' + self.restore_text() + '\n' + self.sections['bodies']
        text = self.resolve_consts(text)
        return text

    def binding_text(self):
        out = []
        for key, (nm, t) in self.bindings_used.items():
            st = sanitize(t)
            if nm == 'string':
                out.append('struct verif_string { char s[16]; size_t n; };\n'
                           'static inline const char *verif_str_at(const struct verif_string *x, size_t i) { __CPROVER_assert(i <= x->n && i < 16, "std::string index within size"); return &x->s[i]; }\n'
                           'static inline void verif_str_push(struct verif_string *x, char c) { __CPROVER_assert(x->n < 15, "verif_string capacity"); x->s[x->n] = c; x->n++; x->s[x->n] = 0; }\n')
            elif nm == 'elapsed':
                out.append('long nondet_long(void);\nstatic inline int64_t verif_elapsed_ms(void) { int64_t t = nondet_long(); __CPROVER_assume(t >= 0 && t < (1LL << 40)); return t; }\n')
            elif nm == 'find':
                out.append('static inline const %s *verif_find_%s(const %s *b, const %s *e, %s v) { const %s *p = b; while (p != e && *p != v)\n'
                           '  __CPROVER_assigns(p) __CPROVER_loop_invariant(__CPROVER_same_object(p, b) && __CPROVER_POINTER_OFFSET(b) <= __CPROVER_POINTER_OFFSET(p) && __CPROVER_POINTER_OFFSET(p) <= __CPROVER_POINTER_OFFSET(e))\n'
                           '  __CPROVER_decreases(__CPROVER_POINTER_OFFSET(e) - __CPROVER_POINTER_OFFSET(p))\n  { p++; } return p; }\n' % (t, st, t, t, t, t))
            elif nm == 'ftrunc_mul':
                if 'verif_ftrunc_mul' in self.contracts:
                    out.append('/* library-style binding with an integer contract (validated exhaustively, see the lemma group) */\nint64_t verif_ftrunc_mul(double c, int e)\n%s;\n' % self.contracts['verif_ftrunc_mul'])
                else:
                    out.append('static inline int64_t verif_ftrunc_mul(double c, int e) { return (int64_t)(c * (double)e); }\n')
            elif nm == 'throw':
                out.append('static inline void verif_throw(void) { __CPROVER_assert(0, "no exception is thrown"); __CPROVER_assume(0); }\n')
            elif nm == 'max':
                out.append('static inline %s verif_max_%s(%s a, %s b) { return a < b ? b : a; }\n' % (t, st, t, t))
            elif nm == 'min':
                out.append('static inline %s verif_min_%s(%s a, %s b) { return b < a ? b : a; }\n' % (t, st, t, t))
            elif nm == 'abs':
                out.append('static inline %s verif_abs_%s(%s a) { return a < 0 ? -a : a; }\n' % (t, st, t))
            else:
                out.append('/* library binding, assumed contract */ double verif_%s(%s)\n%s;\n' % (
                    nm, 'double x, double y' if nm == 'pow' else 'double x', self.contracts.get('verif_' + nm, '')))
        return ''.join(out)

    def restore_text(self):
        """verif_restore_statics(): re-establish source initialisers of mutable statics (dfcc havocs statics)."""
        out = []
        body = []
        for name, (o, init) in self.mutable_inits.items():
            q = qt(o['type'])
            m = re.match(r'^(.*?)((\[\d+\])+)$', q)
            if m:
                out.append('static const %s %s__init%s = %s;\n' % (self.ctype_s(m.group(1)), name, m.group(2), init))
                body.append('  __CPROVER_array_replace(%s, %s__init);\n' % (name, name))
            else:
                body.append('  %s = %s;\n' % (name, init))
        out.append('void verif_restore_statics(void)\n{\n' + ''.join(body) + '}\n')
        return ''.join(out)

    # ------------------------------------------------------------------ compile-time constants
    def resolve_consts(self, text):
        names = re.findall(r'@@CONST:(\w+(?:\[\d+\])?)@@', text)
        if not names:
            return text
        names = list(OrderedDict.fromkeys(names))
        vals = const_values(self.p, names)
        self.const_values = vals
        return re.sub(r'@@CONST:(\w+(?:\[\d+\])?)@@', lambda m: vals[m.group(1)], text)


_CONST_CACHE = {}


def const_values(prog, names):
    """Values of compile-time scalar constants, as computed by the real compiler from the real headers."""
    need = [n for n in names if n not in _CONST_CACHE]
    if need:
        quals = {}
        base = lambda n: n.split('[')[0]
        idx = lambda n: ('[' + n.split('[')[1]) if '[' in n else ''
        mangled = [prog.globals[base(n)].get('mangledName', base(n)) for n in need]
        dem = subprocess.run(['c++filt'] + mangled, capture_output=True, text=True).stdout.split('\n')
        for n, d in zip(need, dem):
            d = d.strip().replace('(anonymous namespace)::', '')
            quals[n] = (d if '::' in d else 'engine::' + base(n)) + idx(n)
        # AST 'loc.file' is only present on the first decl of a file in clang's JSON; fall back to all engine headers
        hdrs = sorted(f for f in os.listdir(os.path.join(REPO, 'engine')) if f.endswith('.h'))
        src = ['#include <cstdio>\n'] + ['#include "%s"\n' % h for h in hdrs]
        src.append('int main(){\n')
        for n in need:
            o = prog.globals[base(n)]
            q = re.sub(r'\[\d+\]', '', qt(o['type']).replace('const ', '')).strip()
            if q in ('double', 'float'):
                src.append('  printf("%s %%a\\n", (double)(%s));\n' % (n, quals[n]))
            elif q.startswith('unsigned') or q in ('bool',) or q.split('::')[-1] in prog.enums:
                src.append('  printf("%s %%lluULL\\n", (unsigned long long)(%s));\n' % (n, quals[n]))
            else:
                src.append('  printf("%s %%lldLL\\n", (long long)(%s));\n' % (n, quals[n]))
        src.append('}\n')
        import tempfile
        with tempfile.TemporaryDirectory(prefix='vconst') as td:
            # constants local to a .cpp (e.g. MAX_MOVES_TO_GO) are not visible through headers: include that TU
            cfile = os.path.join(td, 'c.cpp')
            text = ''.join(src)
            tu_locals = [n for n in need if _defined_in_cpp(prog, base(n))]
            if tu_locals:
                incl = sorted({_defined_in_cpp(prog, base(n)) for n in tu_locals})
                text = ''.join('#include "%s"\n' % f for f in incl) + text
            open(cfile, 'w').write(text)
            inc = ['-I', os.path.join(REPO, 'engine')] + (['-I', CFG_DIR] if CFG_DIR else [])
            p = subprocess.run(['g++', '-std=c++20', '-w', '-c', *BASE_DEFINES, *inc, cfile, '-o', os.path.join(td, 'c.o')],
                               capture_output=True, text=True)
            if p.returncode != 0:
                raise Unsupported('constant printer failed: ' + p.stderr[-1500:])
            # link against nothing: constants are compile-time, but TU includes may need symbols -> compile whole engine lazily
            p = subprocess.run(['g++', os.path.join(td, 'c.o'), '-o', os.path.join(td, 'c')], capture_output=True, text=True)
            if p.returncode != 0:
                objs = _engine_objs_for_consts(td, inc, skip={os.path.basename(f) for f in (incl if tu_locals else [])})
                p = subprocess.run(['g++', os.path.join(td, 'c.o'), *objs, '-o', os.path.join(td, 'c'), '-lpthread'],
                                   capture_output=True, text=True)
                if p.returncode != 0:
                    raise Unsupported('constant printer link failed: ' + p.stderr[-1500:])
            r = subprocess.run([os.path.join(td, 'c')], capture_output=True, text=True)
            for line in r.stdout.split('\n'):
                if line.strip():
                    k, v = line.split(' ', 1)
                    _CONST_CACHE[k] = v.strip()
    return {n: _CONST_CACHE[n] for n in names}


def _defined_in_cpp(prog, name):
    return prog.globals[name].get('_main_file_of')


def _engine_objs_for_consts(td, inc, skip=()):
    objs = []
    srcs = [f for f in sorted(os.listdir(os.path.join(REPO, 'engine'))) if f.endswith('.cpp') and f != 'main.cpp' and f not in skip]
    def cc(f):
        out = os.path.join(td, f + '.o')
        subprocess.run(['g++', '-std=c++20', '-w', '-O0', '-c', *BASE_DEFINES, *inc, os.path.join(REPO, 'engine', f), '-o', out], check=True)
        return out
    with ThreadPoolExecutor(max_workers=16) as ex:
        objs = list(ex.map(cc, srcs))
    return objs


def translate(cpps, roots, contracts=None, loopc=None, nobody=(), hooks=None, force_globals=(), stubs=()):
    prog = Program(cpps)
    em = Emitter(prog, contracts, loopc, nobody, hooks, force_globals, stubs)
    text = em.emit(roots)
    info = {'functions': [(cn, bool(has)) for cn, (i, has) in em.done.items()],
            'loops': em.loops, 'rule_hits': em.rule_hits, 'bindings': list(em.bindings_used),
            'restored_statics': list(em.mutable_inits), 'consts': getattr(em, 'const_values', {})}
    return text, info


if __name__ == '__main__':
    if sys.argv[1] == '--names':
        CFG_DIR = os.path.join(REPO, '_build')
        pr = Program(sys.argv[3:])
        for cn in sorted(pr.by_cname):
            if re.search(sys.argv[2], cn):
                print(cn, '  def' if pr.by_cname[cn]['def'] else '')
        sys.exit(0)
    i = sys.argv.index('--')
    cpps = sys.argv[1:i]
    roots = sys.argv[i + 1:]
    if os.path.isdir(os.path.join(REPO, '_build')):
        CFG_DIR = os.path.join(REPO, '_build')
    try:
        txt, info = translate(cpps, roots)
    except (Unsupported, Drift) as ex:
        sys.stderr.write('EXTRACTION-UNSUPPORTED %s\n' % ex)
        sys.exit(2)
    sys.stdout.write(txt)
    sys.stderr.write(json.dumps(info, indent=1)[:3000] + '\n')
