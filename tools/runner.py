#!/usr/bin/env python3
"""Obligation runner: extract (cxx2c) -> goto-cc -> goto-instrument --dfcc -> cbmc -> classify -> replay -> evidence.

Exit status of a check: 0 all obligations discharged (and vacuity guards passed);
                        1 + `VIOLATION property=<id> replay=<path>` when an obligation FAILS;
                        2 undecided (time-out, extraction unsupported, contract drift, tool error) - never a VIOLATION.
"""
import json, os, re, subprocess, sys, time, shutil, tempfile, hashlib, traceback
from concurrent.futures import ThreadPoolExecutor

HERE = os.path.dirname(os.path.abspath(__file__))
VERIF = os.path.dirname(HERE)
sys.path.insert(0, HERE)
import cxx2c

REPO = cxx2c.REPO
ENGINE = os.path.join(REPO, 'engine')


def tu(*names):
    return [os.path.join(ENGINE, n) for n in names]


class Job:
    """One goto-cc / dfcc / cbmc pipeline = one group of obligations."""

    def __init__(self, name, tus, roots, harness, entry, *, contracts=None, loopc=None, nobody=(),
                 enforce=None, enforce_rec=False, replace=(), loop_contracts=False, spec=(), flags=(),
                 unwindset=None, unwind=None, timeout=900, mem_gb=24, canary=True, tier='quick',
                 post=None, hooks=None, replay=None, route='loop-free', note='', expect=(), defines=(),
                 backend='minisat', no_restore=False, bounded=None, known=None, pre_text='', post_spec=(), force_globals=(), stubs=(), gb=2, drop_flags=()):
        self.drop_flags = tuple(drop_flags)   # default cbmc flags not to use in this group (stated in the group's note)
        self.gb = gb                # expected peak memory of the cbmc process in GB (the runner keeps the sum of running groups under a budget)
        self.stubs = tuple(stubs)   # subset of `replace`: contract applied in stub form by the extractor instead of by goto-instrument
        self.name = name
        self.tus = tus
        self.roots = list(roots)
        self.harness = harness
        self.entry = entry
        self.contracts = contracts or {}
        self.loopc = loopc or {}
        self.nobody = tuple(nobody)
        self.enforce = [enforce] if isinstance(enforce, str) else list(enforce or [])
        if len(self.enforce) > 1:
            raise ValueError('dfcc checks a single contract per instrumented binary: one --enforce-contract per job (%s)' % name)
        self.enforce_rec = enforce_rec
        self.replace = list(replace)
        self.loop_contracts = loop_contracts
        self.spec = list(spec)
        self.flags = list(flags)
        self.unwindset = unwindset
        self.unwind = unwind
        self.timeout = timeout
        self.mem_gb = mem_gb
        self.canary = canary
        self.tier = tier
        self.post = post
        self.hooks = hooks
        self.replay = replay
        self.route = route
        self.note = note
        self.expect = list(expect)
        self.defines = list(defines)
        self.backend = backend
        self.no_restore = no_restore
        self.bounded = bounded       # None, or a string describing the bound (=> labelled bounded, never counted as proved)
        self.known = known
        self.pre_text = pre_text
        self.post_spec = list(post_spec)
        self.force_globals = list(force_globals)


class NativeJob(Job):
    """A labelled stand-in executed natively against the real engine objects (never counted as proved).
    `source` is a complete C++ program; it prints CONFIRMED <failing input> lines and exits 1 on disagreement."""

    def __init__(self, name, source, label, spec=(), tier='quick', timeout=900, note=''):
        Job.__init__(self, name, [], [], '', '', spec=spec, tier=tier, timeout=timeout, note=note, canary=False,
                     bounded=label, route='native execution of the real code (stand-in)')
        self.source = source


def run_native(job, workroot):
    r = JobResult(job)
    t0 = time.time()
    work = os.path.join(workroot, job.name.replace('/', '_'))
    os.makedirs(work, exist_ok=True)
    try:
        objs, inc = engine_objects(workroot)
        cpp = os.path.join(work, 'standin.cpp')
        open(cpp, 'w').write(job.source)
        exe = os.path.join(work, 'standin')
        cmd = ['g++', '-std=c++20', '-w', '-O2', '-DNDEBUG', '-DLOG_LEVEL=0', '-D' + cxx2c.GUARD, *inc, '-I', os.path.join(VERIF, 'spec'),
               cpp, *objs, '-o', exe, '-lpthread']
        r.cmds.append(' '.join(cmd[:12]) + ' ... <engine objects built from the working tree>')
        p = subprocess.run(cmd, capture_output=True, text=True)
        if p.returncode != 0:
            r.status, r.detail = 'ERROR', 'stand-in build failed: ' + p.stderr[-1500:]
        else:
            q = subprocess.run([exe], capture_output=True, text=True, timeout=job.timeout)
            out = q.stdout[-4000:]
            ok = q.returncode == 0 and 'CONFIRMED' not in q.stdout
            d = {'property': 'native.standin', 'status': 'SUCCESS' if ok else 'FAILURE', 'description': job.bounded + ': ' + job.note,
                 'function': '', 'line': ''}
            r.props.append(d)
            r.info['standin_output'] = out[-1500:]
            if ok:
                r.status = 'SUCCESS'
            elif q.returncode == 1 and 'CONFIRMED' in q.stdout:
                r.status = 'FAILURE'
                d['inputs'] = {}
                d['trace_tail'] = [l for l in q.stdout.split('\n') if 'CONFIRMED' in l][:20]
                d['native_confirmed'] = '\n'.join(d['trace_tail'])
                r.failed.append(d)
            else:
                r.status, r.detail = 'ERROR', 'stand-in crashed or gave no verdict (rc=%d): %s' % (q.returncode, (q.stdout + q.stderr)[-800:])
    except subprocess.TimeoutExpired:
        r.status, r.detail = 'TIMEOUT', 'stand-in exceeded %d s' % job.timeout
    except Exception:
        r.status, r.detail = 'ERROR', 'runner exception: ' + traceback.format_exc()[-1500:]
    r.seconds = time.time() - t0
    return r


class JobResult:
    def __init__(self, job):
        self.job = job
        self.status = 'ERROR'        # SUCCESS / FAILURE / TIMEOUT / ERROR / UNSUPPORTED / DRIFT
        self.detail = ''
        self.props = []              # list of dict(property, status, description, location)
        self.failed = []
        self.seconds = 0.0
        self.solver_seconds = 0.0
        self.canary = None           # 'fails-as-required' / 'PASSED (vacuous!)' / None
        self.info = {}
        self.cmds = []
        self.trace_values = {}
        self.log_tail = ''
        self.workdir = None


DEFAULT_FLAGS = ['--bounds-check', '--pointer-check', '--div-by-zero-check', '--signed-overflow-check',
                 '--pointer-overflow-check', '--object-bits', '12']


def run(cmd, timeout=None, mem_gb=None, cwd=None, stdout=None):
    pre = ''
    if mem_gb:
        pre = 'ulimit -v %d; ' % int(mem_gb * 1024 * 1024)
    sh = pre + ' '.join("'%s'" % c.replace("'", "'\\''") for c in cmd)
    t0 = time.time()
    try:
        p = subprocess.run(['bash', '-c', sh], cwd=cwd, capture_output=stdout is None, stdout=stdout,
                           stderr=subprocess.PIPE if stdout is not None else None, text=True, timeout=timeout)
        return p.returncode, (p.stdout if stdout is None else ''), p.stderr, time.time() - t0
    except subprocess.TimeoutExpired as ex:
        return 124, '', 'TIMEOUT', time.time() - t0


def read_spec(names):
    # memory-safety instrumentation is for the engine's code, not for the oracle: checks are switched off inside spec headers
    if not names:
        return ''
    return ('#pragma CPROVER check push\n#pragma CPROVER check disable "pointer"\n#pragma CPROVER check disable "bounds"\n'
            '#pragma CPROVER check disable "pointer-overflow"\n#pragma CPROVER check disable "signed-overflow"\n#pragma CPROVER check disable "pointer-primitive"\n'
            '#pragma CPROVER check disable "undefined-shift"\n#pragma CPROVER check disable "div-by-zero"\n#pragma CPROVER check disable "conversion"\n'
            + ''.join('#include "%s"\n' % n for n in names) + '#pragma CPROVER check pop\n')


def build_c(job, work, canary=False):
    text, info = cxx2c.translate(job.tus, job.roots, job.contracts, job.loopc, job.nobody, job.hooks, job.force_globals, job.stubs)
    if job.post:
        text = job.post(text)
    # spec functions are pure C over plain integer types and precede the extracted text (contracts call them)
    full = '#include <stdint.h>\n#include <stddef.h>\n' + ('#define CANARY 1\n' if canary else '') + \
           ''.join('#define %s\n' % d for d in job.defines) + \
           read_spec(job.spec) + job.pre_text + '\n/* ======== extracted from %s (cxx2c) ======== */\n' % REPO + text + \
           '\n/* ======== spec over the extracted types ======== */\n' + read_spec(job.post_spec) + \
           '\n/* ======== harness ======== */\n' + job.harness + '\n'
    path = os.path.join(work, job.name.replace('/', '_') + ('.canary' if canary else '') + '.c')
    open(path, 'w').write(full)
    return path, info, text


def parse_cbmc_json(txt):
    try:
        d = json.loads(txt)
    except Exception:
        # truncated output (time-out): try to recover nothing
        return None, None, []
    res = None
    status = None
    msgs = []
    for m in d:
        if isinstance(m, dict):
            if 'result' in m:
                res = m['result']
            if 'cProverStatus' in m:
                status = m['cProverStatus']
            if m.get('messageType') in ('ERROR', 'WARNING') and 'messageText' in m:
                msgs.append(m['messageType'] + ': ' + m['messageText'])
    return res, status, msgs


def trace_inputs(trace):
    """Witness values: last assignment to every W_* / G_* lvalue in the failing trace."""
    vals = {}
    for st in trace or []:
        if st.get('stepType') != 'assignment':
            continue
        lhs = st.get('lhs', '')
        if not (lhs.startswith('W_') or lhs.startswith('G_') or lhs.startswith('g_')):
            continue
        v = st.get('value', {})
        if 'data' in v:
            vals[lhs] = v['data']
    return vals


def pipeline(job, work, canary=False, only_property=None, noslice=False):
    """Returns (status, props, detail, cmds, solver_seconds, info, raw) for one variant."""
    cmds = []
    try:
        cfile, info, _ = build_c(job, work, canary)
    except cxx2c.Unsupported as ex:
        return 'UNSUPPORTED', [], 'EXTRACTION-UNSUPPORTED ' + str(ex), cmds, 0, {}, ''
    except cxx2c.Drift as ex:
        return 'DRIFT', [], 'CONTRACT-DRIFT ' + str(ex), cmds, 0, {}, ''
    base = cfile[:-2]
    gb = base + '.gb'
    cmd = ['goto-cc', '-Wall', '-I', os.path.join(VERIF, 'spec'), '--function', job.entry, cfile, '-o', gb]
    cmds.append(' '.join(cmd))
    rc, out, err, _ = run(cmd, timeout=300)
    if rc != 0:
        return 'ERROR', [], 'goto-cc failed: ' + (err or out)[-1500:], cmds, 0, info, ''
    # soundness guard: a call before the callee's declaration makes the callee implicitly `int` in C (64-bit results silently truncated);
    # goto-cc only warns, and only with -Wall
    undeclared = sorted(set(re.findall(r"function '(\w+)' is not declared", (out or '') + (err or ''))))
    if undeclared:
        return 'ERROR', [], 'generated C calls function(s) before their declaration (implicit int): %s' % ', '.join(undeclared), cmds, 0, info, ''
    target = gb
    if job.enforce or job.replace or job.loop_contracts:
        gb2 = base + '.dfcc.gb'
        cmd = ['goto-instrument', '--dfcc', job.entry]
        for f in job.enforce:
            cmd += ['--enforce-contract-rec' if job.enforce_rec else '--enforce-contract', f]
        for f in job.replace:
            if f not in job.stubs:
                cmd += ['--replace-call-with-contract', f]
        if job.loop_contracts:
            cmd += ['--apply-loop-contracts']
        cmd += [gb, gb2]
        cmds.append(' '.join(cmd))
        rc, out, err, _ = run(cmd, timeout=600, mem_gb=job.mem_gb)
        if rc != 0:
            return 'ERROR', [], 'goto-instrument failed: ' + (err or out)[-2500:], cmds, 0, info, ''
        target = gb2
    # (CBMC 6 switches the standard checks on by default: a dropped check has to be switched off explicitly)
    flags = [f for f in DEFAULT_FLAGS if f not in getattr(job, 'drop_flags', ())] + ['--no-' + f[2:] for f in getattr(job, 'drop_flags', ()) if f.endswith('-check')] + [f for f in job.flags if not (noslice and f == '--slice-formula')] + os.environ.get('VERIF_CBMC_EXTRA', '').split()
    if only_property:
        flags += ['--property', only_property]
    if job.unwind is not None:
        flags += ['--unwind', str(job.unwind)]
    if job.unwindset:
        us = job.unwindset(target) if callable(job.unwindset) else job.unwindset
        if us:
            flags += ['--unwindset', ','.join(us)]
    if job.unwind is not None or job.unwindset:
        flags += ['--unwinding-assertions']
    if job.backend == 'kissat':
        flags += ['--external-sat-solver', 'kissat']
    elif job.backend == 'cadical':
        flags += ['--sat-solver', 'cadical']
    elif job.backend in ('cvc5', 'z3'):
        flags += ['--' + job.backend]
    if canary:
        # the vacuity guard needs only the CANARY assertion: solve that single property instead of repeating the whole proof
        rc0, out0, _, _ = run(['cbmc', target] + flags + ['--show-properties', '--json-ui'], timeout=300, mem_gb=job.mem_gb)
        try:
            names = []
            for m in json.loads(out0):
                if isinstance(m, dict) and 'properties' in m:
                    names = [p['name'] for p in m['properties'] if 'CANARY' in p.get('description', '')]
            if names:
                for nm in names:
                    flags += ['--property', nm]
        except Exception:
            pass
    cmd = ['cbmc', target] + flags + ['--json-ui', '--trace']
    cmds.append(' '.join(cmd))
    outf = base + '.json'
    with open(outf, 'w') as fo:
        rc, _, err, secs = run(cmd, timeout=job.timeout, mem_gb=job.mem_gb, stdout=fo)
    raw = open(outf).read()
    if rc == 124:
        return 'TIMEOUT', [], 'cbmc exceeded %d s' % job.timeout, cmds, secs, info, raw[-3000:]
    res, status, msgs = parse_cbmc_json(raw)
    if res is None:
        tail = raw[-2500:]
        kind = 'OOM' if ('bad_alloc' in tail or 'Out of memory' in tail or rc in (134, 137, -6, -9)) else 'ERROR'
        return kind, [], 'cbmc gave no result (rc=%d): %s %s' % (rc, tail, (err or '')[-500:]), cmds, secs, info, raw[-3000:]
    bad_msgs = [m for m in msgs if 'no body for' in m or 'ignoring' in m.lower()]
    info['warnings'] = bad_msgs
    return ('SUCCESS' if status == 'success' else 'FAILURE'), res, '', cmds, secs, info, raw


def run_job(job, workroot):
    if isinstance(job, NativeJob):
        return run_native(job, workroot)
    r = JobResult(job)
    work = os.path.join(workroot, job.name.replace('/', '_'))
    os.makedirs(work, exist_ok=True)
    r.workdir = work
    t0 = time.time()
    try:
        st, props, detail, cmds, secs, info, raw = pipeline(job, work, canary=False)
        r.status, r.detail, r.cmds, r.solver_seconds, r.info = st, detail, cmds, secs, info
        for p in props:
            loc = p.get('sourceLocation', {})
            d = {'property': p['property'], 'status': p['status'], 'description': p.get('description', ''),
                 'function': loc.get('function', ''), 'line': loc.get('line', '')}
            r.props.append(d)
            if p['status'] != 'SUCCESS':
                d['inputs'] = trace_inputs(p.get('trace'))
                tail = []
                for stp in (p.get('trace') or [])[-40:]:
                    if stp.get('stepType') == 'assignment' and not stp.get('hidden'):
                        tail.append('%s = %s' % (stp.get('lhs'), stp.get('value', {}).get('data')))
                d['trace_tail'] = tail[-25:]
                r.failed.append(d)
        if st == 'FAILURE' and job.replay and '--slice-formula' in job.flags:
            # the sliced formula drops the witness copies: re-run the first failing obligation unsliced to obtain a full counterexample
            need = job.replay.get('needs', [])
            f0 = r.failed[0] if r.failed else None
            if f0 is not None and any(not any(k == n or k.startswith(n + '.') or k.startswith(n + '[') for k in f0.get('inputs', {})) for n in need):
                st3, props3, _, cmds3, secs3, _, _ = pipeline(job, work, canary=False, only_property=f0['property'], noslice=True)
                r.solver_seconds += secs3
                for p3 in props3:
                    if p3['property'] == f0['property'] and p3['status'] != 'SUCCESS':
                        f0['inputs'] = trace_inputs(p3.get('trace'))
        if st == 'SUCCESS':
            if info.get('warnings'):
                allowed = getattr(job, 'allowed_nobody', ())
                bad = [w for w in info['warnings'] if not any(a in w for a in allowed)]
                if bad:
                    r.status = 'ERROR'
                    r.detail = 'vacuity guard: ' + '; '.join(bad)[:800]
            missing = [e for e in job.expect if not any(re.search(e, p['property'] + ' ' + p['description']) for p in r.props)]
            if missing:
                r.status = 'ERROR'
                r.detail = 'vacuity guard: expected obligations missing from the result: %s' % missing
            if not r.props:
                r.status = 'ERROR'
                r.detail = 'vacuity guard: zero obligations generated'
        if r.status == 'SUCCESS' and job.canary:
            cj = job
            st2, props2, detail2, cmds2, secs2, _, _ = pipeline(cj, work, canary=True)
            r.solver_seconds += secs2
            can = [p for p in props2 if 'CANARY' in p.get('description', '')]
            if st2 == 'FAILURE' and can and all(p['status'] == 'FAILURE' for p in can):
                r.canary = 'fails-as-required'
            elif st2 in ('TIMEOUT', 'ERROR', 'OOM'):
                r.canary = 'undecided (%s)' % st2
                r.status = st2
                r.detail = 'canary run: ' + detail2
            else:
                r.canary = 'PASSED'
                r.status = 'ERROR'
                r.detail = 'vacuity guard: canary assert(0) after the call did not fail - preconditions unsatisfiable or call does not return'
    except Exception as ex:
        r.status = 'ERROR'
        r.detail = 'runner exception: ' + traceback.format_exc()[-1500:]
    r.seconds = time.time() - t0
    return r


# ---------------------------------------------------------------------------------------------- known findings
def load_known():
    path = os.path.join(VERIF, 'known_findings.txt')
    out = []
    if os.path.exists(path):
        for line in open(path):
            line = line.strip()
            if not line or line.startswith('#'):
                continue
            m = re.match(r'known: property=(\S+) obligation=(\S+) (.*)', line)
            if m:
                what = m.group(3)
                d = re.match(r'desc=(\S+) (.*)', what)      # optional: the failing obligation's description must match too
                out.append({'property': m.group(1), 'obligation': m.group(2), 'what': d.group(2) if d else what, 'desc': d.group(1) if d else None})
    return out


# ---------------------------------------------------------------------------------------------- native replay
_ENGINE_OBJS = {}
import threading
_ENGINE_LOCK = threading.Lock()


def engine_objects(work):
    with _ENGINE_LOCK:
        return _engine_objects(work)


def _engine_objects(work):
    """Compile the real engine sources of /repo's working tree (hooks on) once per run, for replays."""
    if 'objs' in _ENGINE_OBJS:
        return _ENGINE_OBJS['objs'], _ENGINE_OBJS['inc']
    d = os.path.join(work, 'engine_objs')
    os.makedirs(d, exist_ok=True)
    cfg = config_dir(work)
    inc = ['-I', ENGINE, '-I', cfg]
    srcs = [f for f in sorted(os.listdir(ENGINE)) if f.endswith('.cpp') and f != 'main.cpp']

    def cc(f):
        out = os.path.join(d, f + '.o')
        p = subprocess.run(['g++', '-std=c++20', '-w', '-O1', '-c', '-DNDEBUG', '-DLOG_LEVEL=0', '-D' + cxx2c.GUARD,
                            *inc, os.path.join(ENGINE, f), '-o', out], capture_output=True, text=True)
        if p.returncode != 0:
            raise RuntimeError('engine build failed: ' + p.stderr[-1500:])
        return out
    with ThreadPoolExecutor(max_workers=16) as ex:
        objs = list(ex.map(cc, srcs))
    _ENGINE_OBJS['objs'] = objs
    _ENGINE_OBJS['inc'] = inc
    return objs, inc


def config_dir(work):
    d = os.path.join(work, 'cfg')
    if not os.path.isdir(d):
        os.makedirs(d, exist_ok=True)
        src = open(os.path.join(REPO, 'chessplusplusConfig.h.in')).read()
        src = src.replace('@PROJECT_NAME@', 'chessplusplus').replace('@chessplusplus_VERSION@', '1.2.0')
        src = re.sub(r'@\w+@', '', src)
        open(os.path.join(d, 'chessplusplusConfig.h'), 'w').write(src)
    return d


def _val(v):
    v = str(v).strip()
    if v in ('TRUE', 'true'):
        return '1'
    if v in ('FALSE', 'false'):
        return '0'
    m = re.fullmatch(r"(-?\d+)[uUlL]*", v)
    if m:
        return m.group(1) + ('LL' if m.group(1).startswith('-') else 'ULL')
    m = re.fullmatch(r"'(.)'", v)
    if m:
        return str(ord(m.group(1)))
    if re.fullmatch(r'-?[0-9.]+(e[-+]?\d+)?f?', v):
        return v.rstrip('f')
    return None


REPLAY_HEAD = '''// generated by vcheck: replay of a CBMC counterexample against the real engine code
#define _Bool bool
#include <cstdio>
#include <cstdint>
#include <string>
#include <type_traits>
#include "types.h"
#include "bitboard.h"
#include "move_bitboards.h"
#include "zobrist_hash.h"
#include "position.h"
#include "movegen.h"
#include "endgame.h"
#include "score.h"
#include "polyglot.h"
#include "time_manager.h"
%(decl)s
%(spec)s
#define SETF(lv, v) (lv) = (std::remove_reference_t<decltype(lv)>)(v)
namespace engine { struct VerifAccess {
  static void load(Position& P) {
%(assign)s  }
  template <class F> static auto with(Position& P, F f) { return f(P); }
%(access)s
}; }
using namespace engine;
%(globals)s
int main() {
  move_bitboards::init(); zobrist::init(); bitbase::init(); endgame::init();
  Position P;
  VerifAccess::load(P);
%(body)s
  return 0;
}
'''


def replay_source(job, inputs):
    spec = ''.join('#include "%s"\n' % ('pos.h' if n.startswith('poswf') else n) for n in job.spec)
    assign = []
    glob = []
    arrays = {}
    for lhs, v in inputs.items():
        val = _val(v)
        if val is None:
            continue
        if '$pad' in lhs:
            continue
        if lhs.startswith('W_P.'):
            path = re.sub(r'\[(\d+)l?\]', r'[\1]', lhs[4:])
            assign.append('    SETF(P.%s, %s);\n' % (path, val))
        elif not lhs.startswith('W_P') and re.fullmatch(r'[WG]_\w+(\.\w+)+(\[\d+l?\])?', lhs):
            # member of a witness struct other than the Position: W_S.board[3] -> W_S_board[3], W_S.side -> W_S_side
            flat = lhs.replace('.', '_')
            m = re.fullmatch(r'(\w+)\[(\d+)l?\]', flat)
            if m:
                arrays.setdefault(m.group(1), {})[int(m.group(2))] = val
            else:
                glob.append('%s %s = %s;\n' % ('long long' if val.startswith('-') else 'unsigned long long', flat, val))
        elif re.fullmatch(r'[WGg]_\w+', lhs):
            glob.append('%s %s = %s;\n' % ('double' if '.' in val else ('long long' if val.startswith('-') else 'unsigned long long'), lhs, val))
        else:
            m = re.fullmatch(r'([WG]_\w+)\[(\d+)l?\]', lhs)
            if m:
                arrays.setdefault(m.group(1), {})[int(m.group(2))] = val
    for name, d in arrays.items():
        n = max(d) + 1
        glob.append('unsigned long long %s[%d] = {%s};\n' % (name, n, ', '.join(d.get(i, '0') for i in range(n))))
    rp = job.replay
    return REPLAY_HEAD % {'spec': spec, 'assign': ''.join(assign), 'globals': ''.join(glob), 'body': rp.get('body', ''),
                          'access': rp.get('access', ''), 'decl': getattr(job, 'replay_decl', '')}


def native_replay(job, failed, work):
    """Run the job's replay program (real engine objects + oracle) on the counterexample inputs.
    Returns (confirmed: bool, text)."""
    if job.replay is None:
        return False, 'no replay driver for this obligation group'
    try:
        inputs = failed.get('inputs', {})
        need = job.replay.get('needs', [])
        if any(not any(k == n or k.startswith(n + '.') or k.startswith(n + '[') for k in inputs) for n in need):
            return False, 'counterexample gives no usable input assignment (missing %s)' % need
        objs, inc = engine_objects(work)
        objs = [o for o in objs if os.path.basename(o)[:-2] not in job.replay.get('exclude_objs', [])]
        src = replay_source(job, inputs)
        cpp = os.path.join(work, 'replay_%s.cpp' % job.name.replace('/', '_'))
        open(cpp, 'w').write(src)
        exe = cpp[:-4]
        p = subprocess.run(['g++', '-std=c++20', '-w', '-O1', '-DNDEBUG', '-DLOG_LEVEL=0', '-D' + cxx2c.GUARD, *inc,
                            '-I', os.path.join(VERIF, 'spec'), cpp, *objs, '-o', exe, '-lpthread'],
                           capture_output=True, text=True)
        if p.returncode != 0:
            return False, 'replay build failed: ' + p.stderr[-1200:]
        q = subprocess.run([exe], capture_output=True, text=True, timeout=120)
        txt = (q.stdout + q.stderr)[-3000:]
        return ('CONFIRMED' in q.stdout), txt
    except Exception as ex:
        return False, 'replay error: %s' % ex


# ---------------------------------------------------------------------------------------------- check driver
def run_check(pid, module, tier, seed):
    t0 = time.time()
    workroot = tempfile.mkdtemp(prefix='vcheck_%s_' % pid)
    cxx2c.CFG_DIR = config_dir(workroot)
    jobs = [j for j in module.jobs(tier, seed) if tier == 'thorough' or j.tier == 'quick']
    nwork = int(os.environ.get('VERIF_JOBS', '14'))
    results = []
    print('[vcheck] %s tier=%s seed=%d: %d obligation groups, %d workers' % (pid, tier, seed, len(jobs), nwork), flush=True)
    # memory budget: groups run concurrently only while the sum of their expected peaks stays under VERIF_MEM_GB (default 40)
    budget = float(os.environ.get('VERIF_MEM_GB', '40'))
    cond = threading.Condition()
    state = {'avail': budget}

    def run_budgeted(j):
        need = min(float(getattr(j, 'gb', 2)), budget)
        with cond:
            while state['avail'] < need:
                cond.wait()
            state['avail'] -= need
        try:
            return run_job(j, workroot)
        finally:
            with cond:
                state['avail'] += need
                cond.notify_all()
    with ThreadPoolExecutor(max_workers=nwork) as ex:
        from concurrent.futures import as_completed
        futs = [ex.submit(run_budgeted, j) for j in jobs]
        for f in as_completed(futs):
            r = f.result()
            results.append(r)
            nfail = len(r.failed)
            print('[cbmc]  %-58s %-9s %4d obligations, %d failed, %6.1fs %s%s' % (
                pid + '/' + r.job.name, r.status, len(r.props), nfail, r.seconds,
                ('canary ' + r.canary) if r.canary else '', (' | ' + r.detail[:300].replace('\n', ' ')) if r.detail else ''), flush=True)
    order = {j.name: i for i, j in enumerate(jobs)}
    results.sort(key=lambda r: order.get(r.job.name, 0))
    known = [k for k in load_known() if k['property'] == pid]
    violations = []
    known_hits = []
    undecided = []
    replay_dir = os.path.join(VERIF, 'replays', pid)
    for r in results:
        if r.status == 'FAILURE':
            for fp in r.failed:
                oname = '%s/%s' % (r.job.name, fp['property'])
                kn = [k for k in known if (re.fullmatch(k['obligation'], oname) or k['obligation'] == oname)
                      and (not k.get('desc') or re.search(k['desc'], fp.get('description', '')))]
                if kn:
                    known_hits.append((oname, kn[0]['what']))
                    fp['known_finding'] = True
                    continue
                violations.append((r, fp, oname))
        elif r.status != 'SUCCESS':
            undecided.append(r)
    # a listed finding that no longer fails is simply not printed
    for oname, what in known_hits:
        print('KNOWN-FINDING: property=%s %s (%s)' % (pid, what, oname))
    exit_code = 0
    vio_lines = []
    if violations:
        os.makedirs(replay_dir, exist_ok=True)
        seen_jobs = {}
        for r, fp, oname in violations:
            # one replay file per failing obligation; native replay once per job (first failing obligation with inputs)
            if r.job.name not in seen_jobs:
                if 'native_confirmed' in fp:
                    confirmed, rtxt = True, fp['native_confirmed']
                else:
                    confirmed, rtxt = native_replay(r.job, fp, workroot)
                seen_jobs[r.job.name] = (confirmed, rtxt)
            confirmed, rtxt = seen_jobs[r.job.name]
            path = os.path.join(replay_dir, re.sub(r'[^A-Za-z0-9_.-]+', '_', oname) + '.json')
            json.dump({'property': pid, 'obligation': pid + '/' + oname, 'description': fp['description'],
                       'function': fp['function'], 'line': fp['line'], 'job_note': r.job.note,
                       'inputs': fp.get('inputs', {}), 'trace_tail': fp.get('trace_tail', []),
                       'confirmed_on_real_code': confirmed, 'replay_output': rtxt, 'commands': r.cmds,
                       'contract': r.job.contracts}, open(path, 'w'), indent=1)
            if confirmed:
                print('[replay] %s: CONFIRMED on the real code: %s' % (oname, rtxt.strip().replace('\n', ' | ')[:400]))
            line = 'VIOLATION property=%s replay=%s' % (pid, path)
            if not confirmed:
                line += ' obligation=%s no-failing-input-found' % oname
            vio_lines.append(line)
        exit_code = 1
    elif undecided:
        exit_code = 2
    write_evidence(pid, module, tier, seed, results, time.time() - t0, len(violations), known_hits)
    for l in vio_lines[:40]:
        print(l)
    if exit_code == 2:
        for r in undecided:
            print('UNDECIDED %s/%s: %s %s' % (pid, r.job.name, r.status, r.detail[:600].replace('\n', ' ')))
    print('[vcheck] %s: %s in %.0fs' % (pid, {0: 'all obligations discharged' if not known_hits else 'no new violation (%d obligation(s) fail as listed known findings)' % len(known_hits), 1: 'VIOLATION', 2: 'UNDECIDED (no verdict)'}[exit_code], time.time() - t0))
    if os.environ.get('VERIF_KEEP'):
        print('[vcheck] work dir kept: ' + workroot)
    else:
        shutil.rmtree(workroot, ignore_errors=True)
    return exit_code


def write_evidence(pid, module, tier, seed, results, wall, nviol, known_hits):
    proved = [r for r in results if r.job.bounded is None]
    bounded = [r for r in results if r.job.bounded is not None]
    nk = len(known_hits)
    n_ob = sum(len(r.props) for r in proved) - nk     # obligations failing as a listed known finding are reported under known_findings_seen
    n_ok = sum(sum(1 for p in r.props if p['status'] == 'SUCCESS') for r in proved)
    samples = []
    for r in results[:]:
        for p in r.props:
            if ('postcondition' in p['property'] or 'loop_invariant' in p['property'] or 'assertion' in p['property']) and len(samples) < 8:
                samples.append({'obligation': '%s/%s/%s' % (pid, r.job.name, p['property']), 'description': p['description'],
                                'status': p['status'], 'function': p['function']})
                break
    groups = []
    functions = {}
    rule_hits = {}
    assumptions = list(getattr(module, 'ASSUMPTIONS', []))
    for r in results:
        loops = r.info.get('loops', [])
        groups.append({'group': r.job.name, 'status': r.status, 'obligations': len(r.props),
                       'discharged': sum(1 for p in r.props if p['status'] == 'SUCCESS'),
                       'enforced_contracts': r.job.enforce, 'calls_replaced_by_contract': r.job.replace,
                       'loop_route': r.job.route, 'bounded': r.job.bounded, 'backend': r.job.backend,
                       'wall_s': round(r.seconds, 1), 'solver_s': round(r.solver_seconds, 1), 'canary': r.canary,
                       'note': r.job.note, 'detail': r.detail[:400], 'commands': r.cmds,
                       'restored_statics': r.info.get('restored_statics', []), 'library_bindings': r.info.get('bindings', [])})
        for cn, has in r.info.get('functions', []):
            functions[cn] = 'under contract' if cn in r.job.enforce else functions.get(cn, 'body extracted, inlined into its caller\'s obligation' if has else 'by contract only')
        for k, v in r.info.get('rule_hits', {}).items():
            rule_hits[k] = rule_hits.get(k, 0) + v
    ev = {
        'property_id': pid, 'tier': tier, 'seed': seed, 'level': getattr(module, 'LEVEL', 'proof'),
        'coverage': {
            'obligations': n_ob, 'discharged': n_ok,
            'checker_cmd': 'goto-cc --function <h>; goto-instrument --dfcc <h> --enforce-contract <f> [--replace-call-with-contract <g>] [--apply-loop-contracts]; cbmc ' + ' '.join(DEFAULT_FLAGS) + ' (per group: see groups[].commands)',
            'trusted_base': ['clang 14 front end + JSON AST dump', 'cxx2c extraction (tools/cxx2c.py; rule list in DESIGN.md 2.1)',
                             'CBMC 6.11.0 / goto-instrument dfcc', 'SAT back ends built into CBMC: MiniSat 2 (default) / CaDiCaL where noted per group', 'spec/*.h rule library'],
            'explanation': getattr(module, 'EXPLANATION', ''),
            'groups': groups, 'functions': functions, 'extraction_rule_hits': rule_hits,
            'bounded_stand_ins': [{'group': r.job.name, 'bound': r.job.bounded, 'status': r.status,
                                   'obligations': len(r.props)} for r in bounded],
            'samples': samples or [{'note': 'no obligation result available', 'groups': [r.job.name for r in results]}],
            'known_findings_seen': [{'obligation': o, 'what': w} for o, w in known_hits],
            'not_covered': getattr(module, 'NOT_COVERED', []),
        },
        'assumptions': assumptions,
        'wall_s': round(wall, 1), 'violations': nviol,
    }
    # development runs (--only filter, or a scratch copy of the repository via VERIF_REPO) never touch the committed evidence
    evdir = os.environ.get('VERIF_EVIDENCE_DIR') or os.path.join(VERIF, 'evidence')
    os.makedirs(evdir, exist_ok=True)
    json.dump(ev, open(os.path.join(evdir, pid + '.json'), 'w'), indent=1)
