#!/usr/bin/env python3
"""Development aid: extract every obligation group of the given properties and compile it with goto-cc -Wall (no solver run);
reports calls before declaration (implicit int) and extraction failures."""
import sys, os, re, importlib, tempfile, subprocess
from concurrent.futures import ThreadPoolExecutor
HERE = os.path.dirname(os.path.abspath(__file__))
sys.path.insert(0, HERE); sys.path.insert(0, os.path.dirname(HERE))
import runner, cxx2c
work = tempfile.mkdtemp(prefix='vlint_')
cxx2c.CFG_DIR = runner.config_dir(work)
def one(args):
    pid, j = args
    if isinstance(j, runner.NativeJob):
        return pid, j.name, 'native'
    w = os.path.join(work, pid + '_' + j.name.replace('/', '_')); os.makedirs(w, exist_ok=True)
    try:
        cfile, info, _ = runner.build_c(j, w, False)
    except Exception as ex:
        return pid, j.name, 'EXTRACT: ' + str(ex)[:200]
    p = subprocess.run(['goto-cc', '-Wall', '-I', os.path.join(runner.VERIF, 'spec'), '--function', j.entry, cfile, '-o', cfile[:-2] + '.gb'], capture_output=True, text=True)
    und = sorted(set(re.findall(r"function '(\w+)' is not declared", p.stdout + p.stderr)))
    return pid, j.name, ('rc=%d ' % p.returncode if p.returncode else '') + ('UNDECLARED: ' + ', '.join(und) if und else 'ok')
jobs = []
for pid in sys.argv[1:]:
    mod = importlib.import_module('props.' + pid)
    seen = set()
    for j in mod.jobs('thorough', 1):
        if pid == 'C01' and j.name.startswith('theorem/') and not j.name.startswith('theorem/k00'):
            continue
        jobs.append((pid, j))
with ThreadPoolExecutor(max_workers=6) as ex:
    for pid, name, res in ex.map(one, jobs):
        if res not in ('ok', 'native'):
            print(pid, name, res, flush=True)
print('linted %d groups' % len(jobs))
