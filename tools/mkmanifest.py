#!/usr/bin/env python3
"""Regenerates MANIFEST.json from the table below (one place to keep claims and not_applicable consistent)."""
import json, os
V = os.path.dirname(os.path.dirname(os.path.abspath(__file__)))
props = [json.loads(l) for l in open(os.path.join(V, 'properties.jsonl'))]
TB = ('trusted: clang 14 front end/JSON AST, cxx2c extraction (closed rule list, DESIGN.md 2.1), CBMC 6.11 + goto-instrument dfcc, '
      'MiniSat, the spec/ rule library; Release build flags; ')
CLAIMS = {
 'C16': dict(cat='proof', tech='CBMC function contracts (dfcc) on extracted real code; loop-free full-domain obligations + lemma over contracts',
             text='Every move/moveinfo encoder and decoder under its own contract against the bit layout of the statement for all inputs; '
                  'round trips as lemmas over the contracts; uci/parse_uci text round trip under contract with std::string bound to a character buffer. '
                  'The FEN clause is NOT decided (iostream code outside the verified subset).',
             note=TB + 'std::string binding semantics assumed; FEN I/O not covered', ref='3 C16'),
}
NA = {
 'C06': 'quantifies over thread schedules, data races and wall-clock promptness; sequential function contracts (CBMC dfcc has no thread support) cannot express or decide these',
 'C08': 'truth of mate announcements is a game-tree (minimax) property of a pruned heuristic search; no function contract short of a full functional specification of the search expresses it, and CBMC could not decide that one',
 'C19': 'the book loader is std::ifstream + std::map<uint64_t, std::vector<std::pair<Move,int>>> and the selection policies use std::mt19937 / std::max_element with lambdas: outside the C subset the extractor can produce and outside what CBMC contracts can state (file contents, probability distribution); only PolyglotBook::decode_move would be extractable and no check was built for it (code-reading observations in DESIGN.md 8.5 are not claims)',
 'C17': 'SAN printing/parsing lives in std::regex, std::string, std::optional, std::function and lambdas; no machine-checkable contract on the real code is within CBMC\'s reach',
}
extra = os.path.join(V, 'tools', 'claims.json')
if os.path.exists(extra):
    CLAIMS.update(json.load(open(extra)))
checks = []
for p in props:
    c = CLAIMS.get(p['id'])
    if not c:
        continue
    checks.append({'property_id': p['id'], 'quick_cmd': './vcheck %s --tier quick' % p['id'],
                   'thorough_cmd': './vcheck %s --tier thorough' % p['id'],
                   'evidence_file': 'evidence/%s.json' % p['id'], 'replay_cmd_template': './vcheck --replay {path}',
                   'engine': 'vcheck', 'level_claimed': {'category': c['cat'], 'text': c['text'], 'design_ref': 'DESIGN.md section ' + c['ref']},
                   'level_note': c['note'], 'technique': c['tech']})
na = []
for p in props:
    if p['id'] in CLAIMS:
        continue
    na.append({'property_id': p['id'], 'reason': NA.get(p['id'], 'contract check not built yet in this framework (planned, see DESIGN.md section 3); no claim is made')})
m = {'version': 1,
     'setup_cmd': 'python3 tools/setup_check.py',
     'hooks': {'guard': 'CHESSPLUSPLUS_VERIF',
               'enable': '-DCHESSPLUSPLUS_VERIF on the clang (AST dump) and g++ (replay build) command lines of vcheck; the only hook is `friend struct VerifAccess;` in engine::Position and engine::HashKey (replay programs load counterexample states through it); cxx2c itself reads private members from the AST',
               'baseline_off_cmd': "sh -c 'rm -rf /tmp/cpp_baseline_off && cmake -S /repo -B /tmp/cpp_baseline_off -G Ninja -DFETCHCONTENT_FULLY_DISCONNECTED=ON -DFETCHCONTENT_SOURCE_DIR_GOOGLETEST=/usr/src/googletest -DCMAKE_CXX_FLAGS=-Wno-error >/dev/null && cmake --build /tmp/cpp_baseline_off -j16 >/dev/null && /tmp/cpp_baseline_off/unitTests; rc=$?; rm -rf /tmp/cpp_baseline_off; exit $rc'",
               'source_commits': json.load(open(os.path.join(V, 'tools', 'hook_commits.json'))) if os.path.exists(os.path.join(V, 'tools', 'hook_commits.json')) else [],
               'add_only': True},
     'engines': [{'name': 'vcheck', 'path': 'vcheck', 'serves_properties': sorted(CLAIMS),
                  'kind_free_text': 'cxx2c (clang JSON AST -> C extraction of the real functions on every run) + CBMC 6.11 code contracts via goto-instrument --dfcc + native counterexample replay against the real engine objects'}],
     'checks': checks,
     'notes': 'Contract-based deductive verification of the real code (see DESIGN.md). Exit 2 = undecided (time-out / extraction unsupported / contract drift), never a violation.',
     'not_applicable': na}
json.dump(m, open(os.path.join(V, 'MANIFEST.json'), 'w'), indent=1)
print('MANIFEST.json: %d checks, %d not_applicable' % (len(checks), len(na)))
