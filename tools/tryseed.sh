#!/bin/bash
# development aid: tryseed.sh <patch.diff> <ID> [vcheck args]  - apply a seeded change to /repo, run the check, undo it
# (the evidence file of the unchanged tree is preserved)
p=$1; id=$2; shift 2
git -C /repo apply "$p" || { echo "patch does not apply"; exit 3; }
cd /verif; cp evidence/$id.json /tmp/evidence_$id.bak 2>/dev/null
./vcheck $id "$@"; rc=$?
git -C /repo checkout -- .
cp /tmp/evidence_$id.bak evidence/$id.json 2>/dev/null; rm -f /tmp/evidence_$id.bak
echo "exit=$rc"
