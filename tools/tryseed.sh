#!/bin/bash
# development aid: tryseed.sh <patch.diff> <ID> [vcheck args]  - apply a seeded change to /repo, run the check, undo it
p=$1; id=$2; shift 2
git -C /repo apply "$p" || { echo "patch does not apply"; exit 3; }
cd /verif && ./vcheck $id "$@"; rc=$?
git -C /repo checkout -- .
echo "exit=$rc"
