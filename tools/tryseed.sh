#!/bin/bash
# development aid: tryseed.sh <patch.diff> <ID> [vcheck args]
# applies a seeded change in a scratch worktree of /repo (HEAD), runs the check against that worktree (VERIF_REPO) and removes it;
# /repo itself is not touched and the evidence file of the unchanged tree is preserved
p=$(realpath "$1"); id=$2; shift 2
wt=/tmp/wt/seedtest.$$
git -C /repo worktree add --detach "$wt" HEAD >/dev/null 2>&1 || { echo "worktree failed"; exit 3; }
git -C "$wt" apply "$p" || { echo "patch does not apply"; git -C /repo worktree remove --force "$wt"; exit 3; }
cd /verif; cp evidence/$id.json /tmp/evidence_$id.$$.bak 2>/dev/null
VERIF_REPO="$wt" ./vcheck $id "$@"; rc=$?
cp /tmp/evidence_$id.$$.bak evidence/$id.json 2>/dev/null; rm -f /tmp/evidence_$id.$$.bak
git -C /repo worktree remove --force "$wt"
echo "exit=$rc"
