/* The rules of chess on a mailbox board - independent of the engine's bitboards, tables and move generator.
 * Piece codes: 0 empty, 1..6 white P N B R Q K, 7..12 black P N B R Q K.  Colours: 0 white, 1 black.
 * Castling rights: bit 0 white O-O, bit 1 white O-O-O, bit 2 black O-O, bit 3 black O-O-O.  ep = 64: no e.p. square.
 * Moves use the engine's encoding (spec/moveenc.h): castling moves carry a code (1 king side, 2 queen side) and no squares.
 * All loops have constant bounds. */
#ifndef SPEC_POS_H
#define SPEC_POS_H
#include "moveenc.h"
#include "geom.h"
typedef uint8_t sp_pc;   /* 8-bit piece codes keep the symbolic board reads of the oracle small */
typedef struct SPos { sp_pc board[64]; uint32_t side, rights, ep, half; int32_t ply; } SPos;
#define SP_NONE 64u
static inline uint32_t sp_kind(uint32_t pc) { return pc == 0 ? 0u : (pc - 1u) % 6u + 1u; }
static inline uint32_t sp_colour(uint32_t pc) { return pc >= 7u ? 1u : 0u; }
static inline uint32_t sp_piece(uint32_t colour, uint32_t kind) { return kind == 0 ? 0u : kind + 6u * colour; }
static inline _Bool sp_own(uint32_t pc, uint32_t side) { return pc != 0 && pc <= 12 && sp_colour(pc) == side; }
static inline _Bool sp_enemy(uint32_t pc, uint32_t side) { return pc != 0 && pc <= 12 && sp_colour(pc) != side; }
static inline int sp_file(uint32_t s) { return (int)(s & 7); }
static inline int sp_rank(uint32_t s) { return (int)(s >> 3); }
static inline _Bool sp_in(int f, int r) { return f >= 0 && f < 8 && r >= 0 && r < 8; }
static inline int sp_abs(int x) { return x < 0 ? -x : x; }
static inline int sp_sgn(int x) { return x > 0 ? 1 : (x < 0 ? -1 : 0); }

/* piece standing on (f, r), or 0 when off the board */
static inline uint32_t sp_at(const sp_pc *b, int f, int r) { return sp_in(f, r) ? b[r * 8 + f] : 0u; }

/* occupancy of the board, and the squares holding piece code a or b, as square sets (bit s = square s) */
static inline uint64_t sp_occ(const sp_pc *b) { uint64_t o = 0; for (uint32_t s = 0; s < 64; s++) if (b[s] != 0) o |= SPEC_BIT(s); return o; }
static inline uint64_t sp_squares_of(const sp_pc *b, uint32_t a, uint32_t c) { uint64_t o = 0; for (uint32_t s = 0; s < 64; s++) if (b[s] == a || b[s] == c) o |= SPEC_BIT(s); return o; }
/* is square sq attacked by a piece of colour `by`?  pawns, knights and king by their step patterns; bishops, rooks and
 * queens along rays walked from sq until the first occupied square (spec/geom.h), which must hold such a piece */
static inline _Bool sp_attacked(const sp_pc *b, uint32_t sq, uint32_t by)
{
  int f = sp_file(sq), r = sp_rank(sq);
  int pr = by == 0 ? r - 1 : r + 1;              /* a white pawn attacks upwards, so it stands one rank below */
  if (sp_at(b, f - 1, pr) == sp_piece(by, 1) || sp_at(b, f + 1, pr) == sp_piece(by, 1)) return 1;
  static const int ndf[8] = {1, 2, 2, 1, -1, -2, -2, -1}, ndr[8] = {2, 1, -1, -2, -2, -1, 1, 2};
  for (int i = 0; i < 8; i++) if (sp_at(b, f + ndf[i], r + ndr[i]) == sp_piece(by, 2)) return 1;
  static const int kdf[8] = {1, 1, 1, 0, -1, -1, -1, 0}, kdr[8] = {1, 0, -1, -1, -1, 0, 1, 1};
  for (int i = 0; i < 8; i++) if (sp_at(b, f + kdf[i], r + kdr[i]) == sp_piece(by, 6)) return 1;
  uint64_t occ = sp_occ(b);
  if (spec_bishop_walk(sq, occ) & sp_squares_of(b, sp_piece(by, 3), sp_piece(by, 5))) return 1;
  if (spec_rook_walk(sq, occ) & sp_squares_of(b, sp_piece(by, 4), sp_piece(by, 5))) return 1;
  return 0;
}
static inline uint32_t sp_king_sq(const sp_pc *b, uint32_t side)
{ uint32_t k = SP_NONE; for (uint32_t s = 0; s < 64; s++) if (b[s] == sp_piece(side, 6)) k = s; return k; }
static inline _Bool sp_in_check(const sp_pc *b, uint32_t side)
{ uint32_t k = sp_king_sq(b, side); return k != SP_NONE && sp_attacked(b, k, 1 - side); }

/* squares strictly between two aligned squares are all empty (also true for adjacent squares); 0 if not aligned */
static inline _Bool sp_path_clear(const sp_pc *b, uint32_t from, uint32_t to)
{
  int df = sp_file(to) - sp_file(from), dr = sp_rank(to) - sp_rank(from);
  if (!((df == 0) != (dr == 0) || (df != 0 && sp_abs(df) == sp_abs(dr)))) return 0;
  int sf = sp_sgn(df), sr = sp_sgn(dr); int n = sp_abs(df) > sp_abs(dr) ? sp_abs(df) : sp_abs(dr);
  for (int i = 1; i < 8; i++) if (i < n && b[(sp_rank(from) + i * sr) * 8 + sp_file(from) + i * sf] != 0) return 0;
  return 1;
}

/* castling squares of a side */
static inline uint32_t sp_home(uint32_t side) { return side == 0 ? 0u : 56u; }

/* Pseudo-legal: the move obeys the movement rules of its piece (king safety not considered).
 * Castling additionally needs the right, king and rook on their home squares and empty squares between them. */
static inline _Bool sp_pseudo_legal(const SPos *P, uint32_t m)
{
  const sp_pc *b = P->board; uint32_t side = P->side;
  if (side > 1 || (m >> 17) != 0) return 0;
  uint32_t c = spec_move_ccode(m);
  if (c == 3) return 0;
  if (c != 0) {
    if ((m & 0x7fffu) != 0) return 0;
    uint32_t h = sp_home(side), right = (c == 1 ? 1u : 2u) << (2 * side);
    if (!(P->rights & right)) return 0;
    if (b[h + 4] != sp_piece(side, 6)) return 0;
    if (c == 1) return b[h + 7] == sp_piece(side, 4) && b[h + 5] == 0 && b[h + 6] == 0;
    return b[h + 0] == sp_piece(side, 4) && b[h + 1] == 0 && b[h + 2] == 0 && b[h + 3] == 0;
  }
  uint32_t from = spec_move_from(m), to = spec_move_to(m), promo = spec_move_promo(m);
  uint32_t pc = b[from], tg = b[to];
  if (from == to || !sp_own(pc, side) || sp_own(tg, side) || tg > 12) return 0;
  if (sp_kind(tg) == 6) return 0;                      /* kings are never captured */
  int df = sp_file(to) - sp_file(from), dr = sp_rank(to) - sp_rank(from);
  uint32_t k = sp_kind(pc);
  if (k != 1 && promo != 0) return 0;
  switch (k) {
  case 1: {
    int up = side == 0 ? 1 : -1, start = side == 0 ? 1 : 6, last = side == 0 ? 7 : 0;
    if ((sp_rank(to) == last) != (promo >= 2 && promo <= 5)) return 0;
    if (promo != 0 && sp_rank(to) != last) return 0;
    if (df == 0 && dr == up) return tg == 0;
    if (df == 0 && dr == 2 * up) return sp_rank(from) == start && tg == 0 && b[from + (side == 0 ? 8 : -8)] == 0;
    if (sp_abs(df) == 1 && dr == up) {
      if (tg != 0) return 1;
      /* en passant: target is the e.p. square; the pawn to be removed stands behind it */
      return to == P->ep && P->ep != SP_NONE && sp_rank(to) == (side == 0 ? 5 : 2) && b[side == 0 ? to - 8 : to + 8] == sp_piece(1 - side, 1);
    }
    return 0; }
  case 2: return (sp_abs(df) == 1 && sp_abs(dr) == 2) || (sp_abs(df) == 2 && sp_abs(dr) == 1);
  case 3: return sp_abs(df) == sp_abs(dr) && sp_path_clear(b, from, to);
  case 4: return (df == 0 || dr == 0) && sp_path_clear(b, from, to);
  case 5: return (df == 0 || dr == 0 || sp_abs(df) == sp_abs(dr)) && sp_path_clear(b, from, to);
  case 6: return sp_abs(df) <= 1 && sp_abs(dr) <= 1;
  default: return 0; }
}
static inline _Bool sp_is_ep(const SPos *P, uint32_t m)
{ return spec_move_ccode(m) == 0 && sp_kind(P->board[spec_move_from(m)]) == 1 && spec_move_to(m) == P->ep && P->ep != SP_NONE; }

/* piece standing on sq after the (pseudo-legal) move */
static inline uint32_t sp_after_piece(const SPos *P, uint32_t m, uint32_t sq)
{
  const sp_pc *b = P->board; uint32_t side = P->side, c = spec_move_ccode(m);
  if (c != 0) {
    uint32_t h = sp_home(side);
    uint32_t kf = h + 4, kt = c == 1 ? h + 6 : h + 2, rf = c == 1 ? h + 7 : h + 0, rt = c == 1 ? h + 5 : h + 3;
    if (sq == kt) return sp_piece(side, 6);
    if (sq == rt) return sp_piece(side, 4);
    if (sq == kf || sq == rf) return 0;
    return b[sq];
  }
  uint32_t from = spec_move_from(m), to = spec_move_to(m), promo = spec_move_promo(m);
  if (sq == from) return 0;
  if (sq == to) return promo != 0 ? sp_piece(side, promo) : b[from];
  if (sp_is_ep(P, m) && sq == (side == 0 ? to - 8 : to + 8)) return 0;
  return b[sq];
}
static inline uint32_t sp_after_rights(const SPos *P, uint32_t m)
{
  uint32_t side = P->side, r = P->rights, c = spec_move_ccode(m);
  if (c != 0) return r & ~(3u << (2 * side));
  uint32_t from = spec_move_from(m), to = spec_move_to(m);
  if (sp_kind(P->board[from]) == 6) r &= ~(3u << (2 * side));
  /* a rook leaving, or anything landing on, a corner square kills the right attached to that corner */
  if (from == 7 || to == 7) r &= ~1u;
  if (from == 0 || to == 0) r &= ~2u;
  if (from == 63 || to == 63) r &= ~4u;
  if (from == 56 || to == 56) r &= ~8u;
  return r;
}
static inline uint32_t sp_after_ep(const SPos *P, uint32_t m)
{
  if (spec_move_ccode(m) != 0) return SP_NONE;
  uint32_t from = spec_move_from(m), to = spec_move_to(m);
  if (sp_kind(P->board[from]) == 1 && sp_abs(sp_rank(to) - sp_rank(from)) == 2) return (from + to) / 2;
  return SP_NONE;
}
static inline _Bool sp_is_capture(const SPos *P, uint32_t m)
{ return spec_move_ccode(m) == 0 && (P->board[spec_move_to(m)] != 0 || sp_is_ep(P, m)); }
static inline uint32_t sp_after_half(const SPos *P, uint32_t m)
{
  if (spec_move_ccode(m) != 0) return P->half + 1;           /* castling is neither a capture nor a pawn move */
  if (sp_kind(P->board[spec_move_from(m)]) == 1 || sp_is_capture(P, m)) return 0;
  return P->half + 1;
}
static inline uint32_t sp_captured_kind(const SPos *P, uint32_t m)
{ return spec_move_ccode(m) != 0 ? 0u : sp_kind(P->board[spec_move_to(m)]); }

static inline void sp_after(const SPos *P, uint32_t m, SPos *Q)
{
  /* same function as sp_after_piece square by square, with the reads at move-dependent squares done once */
  const sp_pc *b = P->board; uint32_t side = P->side, c = spec_move_ccode(m);
  uint32_t from = spec_move_from(m), to = spec_move_to(m), promo = spec_move_promo(m);
  uint32_t mover = b[from]; _Bool ep = c == 0 && sp_kind(mover) == 1 && to == P->ep && P->ep != SP_NONE;
  uint32_t victim = side == 0 ? to - 8 : to + 8;
  uint32_t h = sp_home(side), kf = h + 4, kt = c == 1 ? h + 6 : h + 2, rf = c == 1 ? h + 7 : h + 0, rt = c == 1 ? h + 5 : h + 3;
  for (uint32_t s = 0; s < 64; s++) {
    uint32_t v = b[s];
    if (c != 0) { if (s == kt) v = sp_piece(side, 6); else if (s == rt) v = sp_piece(side, 4); else if (s == kf || s == rf) v = 0; }
    else { if (s == from) v = 0; else if (s == to) v = promo != 0 ? sp_piece(side, promo) : mover; else if (ep && s == victim) v = 0; }
    Q->board[s] = v;
  }
  Q->side = 1 - P->side; Q->rights = sp_after_rights(P, m); Q->ep = sp_after_ep(P, m); Q->half = sp_after_half(P, m); Q->ply = (int32_t)((uint32_t)P->ply + 1u);
}
/* legal: pseudo-legal, the mover's king is not attacked afterwards, and for castling the king neither stands in,
 * passes through nor lands on an attacked square */
static inline _Bool sp_legal(const SPos *P, uint32_t m)
{
  if (!sp_pseudo_legal(P, m)) return 0;
  SPos Q; sp_after(P, m, &Q);
  if (sp_in_check(Q.board, P->side)) return 0;
  uint32_t c = spec_move_ccode(m);
  if (c != 0) {
    uint32_t h = sp_home(P->side);
    if (sp_attacked(P->board, h + 4, 1 - P->side)) return 0;
    if (sp_attacked(P->board, c == 1 ? h + 5 : h + 3, 1 - P->side)) return 0;
  }
  return 1;
}
/* state fields are meaningful for the board (the mailbox counterpart of wf_state in poswf.h) */
static inline _Bool sp_state_ok(const SPos *P)
{
  const sp_pc *b = P->board;
  if (P->side > 1 || P->rights > 15) return 0;
  for (uint32_t s = 0; s < 64; s++) if (b[s] > 12) return 0;
  uint32_t r = P->rights;
  if ((r & 3) && b[4] != 6) return 0;
  if ((r & 1) && b[7] != 4) return 0;
  if ((r & 2) && b[0] != 4) return 0;
  if ((r & 12) && b[60] != 12) return 0;
  if ((r & 4) && b[63] != 10) return 0;
  if ((r & 8) && b[56] != 10) return 0;
  uint32_t e = P->ep;
  if (e != SP_NONE) {
    if (e > 64) return 0;
    if (P->side == 0) { if ((e >> 3) != 5 || b[e] != 0 || b[e - 8] != 7 || b[e + 8] != 0) return 0; }
    else { if ((e >> 3) != 2 || b[e] != 0 || b[e + 8] != 1 || b[e - 8] != 0) return 0; }
  }
  int wk = 0, bk = 0;
  for (uint32_t s = 0; s < 64; s++) { if (b[s] == 6) wk++; if (b[s] == 12) bk++; }
  if (wk != 1 || bk != 1) return 0;
  for (uint32_t s = 0; s < 8; s++) if (sp_kind(b[s]) == 1 || sp_kind(b[56 + s]) == 1) return 0;
  return 1;
}
#endif
