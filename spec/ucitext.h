/* UCI long algebraic text of a move, from the protocol definition (property C16):
 * <from file><from rank><to file><to rank>[promotion letter n|b|r|q]; castling printed as the king's two-square move. */
#ifndef SPEC_UCITEXT_H
#define SPEC_UCITEXT_H
#include "moveenc.h"
static inline int spec_uci_len(uint32_t side, uint32_t m)
{ (void)side; if (spec_move_ccode(m) != 0) return 4; return spec_move_promo(m) != 0 ? 5 : 4; }
static inline char spec_uci_char(uint32_t side, uint32_t m, int i)
{
  uint32_t f = spec_move_from(m), t = spec_move_to(m), p = spec_move_promo(m), c = spec_move_ccode(m);
  if (c != 0) { /* king e1/e8 -> g (king side, code 1) or c (queen side, code 2) */
    f = side == 0 ? 4u : 60u; t = (c == 1) ? f + 2 : f - 2; p = 0; }
  switch (i) {
  case 0: return (char)('a' + (f & 7));
  case 1: return (char)('1' + (f >> 3));
  case 2: return (char)('a' + (t & 7));
  case 3: return (char)('1' + (t >> 3));
  case 4: return p == 2 ? 'n' : p == 3 ? 'b' : p == 4 ? 'r' : p == 5 ? 'q' : 0;
  default: return 0; }
}
/* shape of a legal move as far as the text round trip depends on it:
 * castling code => own king stands on e1/e8; otherwise from/to on the board, promotion none or N/B/R/Q,
 * an own piece on the from-square, and a king never moves two files (that is castling). */
static inline _Bool spec_uci_movable(const uint32_t *board, uint32_t side, uint32_t m)
{
  uint32_t f = spec_move_from(m), t = spec_move_to(m), p = spec_move_promo(m), c = spec_move_ccode(m);
  if (m >> 17) return 0;
  if (side > 1) return 0;
  if (c == 3) return 0;
  if (c != 0) return (m & 0x7fffu) == 0 && board[side == 0 ? 4 : 60] == (side == 0 ? 6u : 12u);
  if (!(p == 0 || (p >= 2 && p <= 5))) return 0;
  uint32_t pc = board[f];
  if (pc == 0 || pc > 12) return 0;
  if ((pc >= 7) != (side == 1)) return 0;
  uint32_t kind = (pc - 1) % 6 + 1;
  int df = (int)(f & 7) - (int)(t & 7);
  if (kind == 6 && (df == 2 || df == -2)) return 0;
  if (p != 0 && kind != 1) return 0;
  return f != t;
}
#endif
