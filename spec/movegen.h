/* What each leaf move generator must emit, as a predicate on one (ghost) move - square-set form of the chess rules for
 * arbitrary masks (the composition with the check / pin masks is C01's top-level obligation). */
#ifndef SPEC_MOVEGEN_H
#define SPEC_MOVEGEN_H
#include "geom.h"
#include "moveenc.h"
/* pawn moves of `side` for the given pawn set: captures onto capture_mask, pushes onto empty & push_mask, double push from the
 * start rank through an empty square; reaching the last rank emits exactly the four promotions, otherwise the plain move */
static inline int spec_pawn_count(uint32_t side, uint64_t P, uint64_t E, uint64_t PM, uint64_t CM, uint32_t m)
{
  uint32_t f = spec_move_from(m), t = spec_move_to(m), pr = spec_move_promo(m);
  if (spec_move_ccode(m) != 0 || (m >> 17) != 0) return 0;
  if (!((P >> f) & 1)) return 0;
  int r = (int)(f >> 3), fl = (int)(f & 7), up = side == 0 ? 8 : -8;
  int rel = side == 0 ? r : 7 - r;                 /* rank seen from the pawn's side */
  if (rel >= 7) return 0;
  int tt = (int)t - (int)f; _Bool ok = 0;
  int right = side == 0 ? 9 : -9, left = side == 0 ? 7 : -7;    /* "UPRIGHT" = towards the h-file for White, towards the a-file for Black */
  int right_file_ok = side == 0 ? fl != 7 : fl != 0, left_file_ok = side == 0 ? fl != 0 : fl != 7;
  if (tt == right && right_file_ok && ((CM >> t) & 1)) ok = 1;
  else if (tt == left && left_file_ok && ((CM >> t) & 1)) ok = 1;
  else if (tt == up && ((E >> t) & 1) && ((PM >> t) & 1)) ok = 1;
  else if (tt == 2 * up && rel == 1 && ((E >> (f + up)) & 1) && ((E >> t) & 1) && ((PM >> t) & 1)) return pr == 0;
  if (!ok) return 0;
  if (rel == 6) return pr >= 2 && pr <= 5;
  return pr == 0;
}

/* squares from which an enemy pawn attacks square k of side `side`'s king: one rank ahead (from side's view), adjacent files */
static inline uint64_t spec_pawn_attackers_of(uint32_t k, uint32_t side)
{ int f = (int)(k & 7), r = (int)(k >> 3), rr = side == 0 ? r + 1 : r - 1; return spec_leap(f, rr, -1, 0) | spec_leap(f, rr, 1, 0); }
/* squares reached from sq along `ray` and its opposite, each walked to the first blocker */
static inline uint64_t spec_walk_line(int ray, uint32_t sq, uint64_t occ) { return spec_walk_ray(ray, sq, occ) | spec_walk_ray((ray + 4) & 7, sq, occ); }

/* ---- pins: on ray `ray` from the king square k, the first piece is an own piece and the second piece is an enemy queen,
 * or an enemy rook (straight rays, odd index) / bishop (diagonal rays, even index).  Returns 1 and the pinned square. */
static inline uint32_t spec_nth_on_ray(int ray, uint32_t k, uint64_t occ, int nth)
{
  /* square of the nth (0 or 1) occupied square met when walking from k along ray; 64 if there is none */
  int f = (int)(k & 7), r = (int)(k >> 3), seen = 0; uint32_t res = 64;
  for (int i = 1; i < 8; i++) {
    int ff = f + i * spec_df(ray), rr = r + i * spec_dr(ray);
    if (spec_on_board(ff, rr) && ((occ >> (rr * 8 + ff)) & 1)) { if (seen == nth && res == 64) res = (uint32_t)(rr * 8 + ff); seen++; }
  }
  return res;
}
static inline uint32_t spec_pin_sq(int ray, uint32_t k, uint64_t occ, uint64_t own, uint64_t enemy_q, uint64_t enemy_r, uint64_t enemy_b)
{
  /* square of the piece pinned on `ray` (64 if there is no pin on that ray) */
  uint32_t a = spec_nth_on_ray(ray, k, occ, 0), b = spec_nth_on_ray(ray, k, occ, 1);
  if (a == 64 || b == 64) return 64;
  if (!((own >> a) & 1)) return 64;
  uint64_t sliders = enemy_q | ((ray & 1) ? enemy_r : enemy_b);
  return ((sliders >> b) & 1) ? a : 64u;
}
/* is square sq attacked by the enemy of `side` when the own king (on k) is lifted off the board?  (squares the king may not step to)
 * Stated attacker by attacker: some enemy pawn / knight / king / slider standing on a square s reaches sq. */
static inline _Bool spec_forbidden_bit(uint32_t side, uint32_t sq, uint32_t k, uint64_t occ, uint64_t ep_, uint64_t en, uint64_t eb, uint64_t er, uint64_t eq, uint64_t ek)
{
  uint64_t blockers = occ ^ SPEC_BIT(k);
  if (spec_pawn_attackers_of(sq, side) & ep_) return 1;
  if (spec_knight(sq) & en) return 1;
  if (spec_king(sq) & ek) return 1;
  _Bool hit = 0;
  for (uint32_t s = 0; s < 64; s++) {
    if (((eb | eq) >> s) & 1) hit = hit || spec_sees(1, s, sq, blockers);
    if (((er | eq) >> s) & 1) hit = hit || spec_sees(0, s, sq, blockers);
  }
  return hit;
}
/* a witness for spec_forbidden_bit: (kind << 8) | square of one attacking enemy piece - kind 1 pawn, 2 knight, 3/4/5 bishop/rook/queen,
 * 6 king; 0 if there is none (the square is only meaningful for kinds 2..5) */
static inline uint32_t spec_fb_cause(uint32_t side, uint32_t sq, uint32_t k, uint64_t occ, uint64_t ep_, uint64_t en, uint64_t eb, uint64_t er, uint64_t eq, uint64_t ek)
{
  uint64_t blockers = occ ^ SPEC_BIT(k);
  uint32_t kind = 0, s0 = 0;
  for (uint32_t s = 0; s < 64; s++) {
    _Bool d = spec_sees(1, s, sq, blockers), o = spec_sees(0, s, sq, blockers);
    if (((eq >> s) & 1) && (d || o)) { kind = 5; s0 = s; }
    if (((er >> s) & 1) && o) { kind = 4; s0 = s; }
    if (((eb >> s) & 1) && d) { kind = 3; s0 = s; }
    if (((en >> s) & 1) && ((spec_knight(sq) >> s) & 1)) { kind = 2; s0 = s; }
  }
  if (spec_king(sq) & ek) kind = 6;
  if (spec_pawn_attackers_of(sq, side) & ep_) kind = 1;
  return (kind << 8) | s0;
}
static inline uint64_t spec_pinned_set(uint32_t k, uint64_t occ, uint64_t own, uint64_t eq, uint64_t er, uint64_t eb)
{ uint64_t s = 0; for (int r = 0; r < 8; r++) { uint32_t q = spec_pin_sq(r, k, occ, own, eq, er, eb); if (q != 64) s |= SPEC_BIT(q); } return s; }
/* number of pins on rays with index below `ray` (the engine records pins in ray order) */
static inline int spec_pin_rank(int ray, uint32_t k, uint64_t occ, uint64_t own, uint64_t eq, uint64_t er, uint64_t eb)
{ int n = 0; for (int r = 0; r < 8; r++) if (r < ray && spec_pin_sq(r, k, occ, own, eq, er, eb) != 64) n++; return n; }
/* ---- en passant by pawns of `side` from the set npp (the not-pinned pawns): the capture towards the e.p. square `ep` from
 * each adjacent file; it must resolve a check if there is one (captured pawn in capture_mask or e.p. square in push_mask), and when
 * exactly one pawn can capture, removing it and the captured pawn from the rank must not expose the king (on square k) to an enemy
 * rook or queen along that rank */
static inline int spec_ep_count(uint32_t side, uint64_t occ, uint32_t k, uint64_t enemy_rq, uint64_t npp, uint64_t PM, uint64_t CM, uint32_t ep, uint32_t m)
{
  uint32_t f = spec_move_from(m), t = spec_move_to(m);
  if (spec_move_ccode(m) != 0 || spec_move_promo(m) != 0 || (m >> 17) != 0 || t != ep) return 0;
  int up = side == 0 ? 8 : -8, upright = side == 0 ? 9 : -9, upleft = side == 0 ? 7 : -7;
  uint32_t captured = (uint32_t)((int)ep - up);
  if (!(((CM >> captured) & 1) || ((PM >> ep) & 1))) return 0;
  int ef = (int)(ep & 7);
  /* a pawn captures "up-right" from the square ep - upright: that square must be on the neighbouring file (no wrap) */
  uint32_t rs = (uint32_t)((int)ep - upright), ls = (uint32_t)((int)ep - upleft);
  _Bool rfile = side == 0 ? ef != 0 : ef != 7, lfile = side == 0 ? ef != 7 : ef != 0;
  _Bool r = rfile && rs < 64 && ((npp >> rs) & 1), l = lfile && ls < 64 && ((npp >> ls) & 1);
  if (r != l) {
    uint32_t att = r ? rs : ls;
    uint64_t blockers = occ ^ (SPEC_BIT(captured) | SPEC_BIT(att));
    if (spec_walk_line(3, k, blockers) & enemy_rq) return 0;
  }
  return (r && f == rs) || (l && f == ls);
}
/* ---- moves of a pinned pawn standing on `from`, pinned along `ray` (only moves that stay on the pin line): the engine's rule table
 * diagonal pin towards "up-left"/"up-right": the capture in that direction if an enemy piece stands there; file pin: push, and the
 * direction, also onto the e.p. square (en passant along the pin line); file pin: push, and the double push from the start rank if
 * both squares are empty; rank pin: nothing.  Last-rank arrivals as four promotions. */
static inline int spec_pinned_pawn_count(uint32_t side, uint32_t from, int ray, uint64_t occ, uint64_t enemy, uint32_t ep, uint32_t m)
{
  uint32_t f = spec_move_from(m), t = spec_move_to(m), pr = spec_move_promo(m);
  if (spec_move_ccode(m) != 0 || (m >> 17) != 0 || f != from) return 0;
  int up = side == 0 ? 8 : -8, upleft = side == 0 ? 7 : -7, upright = side == 0 ? 9 : -9;
  int rel = side == 0 ? (int)(from >> 3) : 7 - (int)(from >> 3), fl = (int)(from & 7);
  int left_ok = side == 0 ? fl != 0 : fl != 7, right_ok = side == 0 ? fl != 7 : fl != 0;
  _Bool ok = 0;
  int d = (int)t - (int)from;
  switch (ray & 3) {
  case 0: ok = d == upleft && left_ok && (((enemy >> t) & 1) || (rel != 6 && t == ep)); break;
  case 1: if (d == up) ok = !((occ >> t) & 1);
          else if (d == 2 * up && rel == 1) return pr == 0 && !((occ >> (from + up)) & 1) && !((occ >> t) & 1);
          break;
  case 2: ok = d == upright && right_ok && (((enemy >> t) & 1) || (rel != 6 && t == ep)); break;
  default: break; }
  if (!ok) return 0;
  if (rel == 6) return pr >= 2 && pr <= 5;
  return pr == 0;
}

/* ================= the check-mask / pin algorithm as a predicate on one move (intermediate specification) =================
 * For the side to move: checkers, capture/push masks, pinned set; a move is produced iff one of the leaf rules above produces it
 * under these masks.  C01 = (engine == this predicate) + (this predicate == the rules of chess, sp_legal).
 *
 * The predicate is written in two layers so that the engine-side composition proof stays small:
 *   spec_alg_core(S, G, m)  works on square SETS (S) and on the VALUES of the geometric sub-queries (G: checkers, pinned square per
 *                           ray, attack set of the moving piece, forbidden bits at the squares m needs, king-checker segment) -
 *                           pure mask glue, no ray walk inside;
 *   spec_alg_count(P, m)    = spec_alg_core(sets of the mailbox board P, the true values of those sub-queries, m).
 * The composition obligation proves  engine == spec_alg_core  for EVERY value of G that the leaf contracts allow (the leaves
 * themselves are proved against the true values); the theorem jobs prove spec_alg_count == sp_legal. */
typedef struct { uint64_t own, enemy; uint64_t kind[7]; uint32_t k, side, rights, ep; } AlgSets;
typedef struct { uint64_t checkers; uint32_t pin[8]; uint64_t att[6]; _Bool fb_t, fb_a, fb_b; uint64_t seg; } AlgGhost;
static inline uint32_t alg_lsb(uint64_t x) { uint32_t r = 64; for (int s = 63; s >= 0; s--) if ((x >> s) & 1) r = (uint32_t)s; return r; }
static inline uint32_t alg_kind_at(AlgSets S, uint32_t sq)
{ uint32_t r = 0; for (uint32_t k = 1; k <= 6; k++) if ((S.kind[k] >> (sq & 63)) & 1) r = k; return r; }
/* the two squares whose safety castling code cc depends on (f,g / d,c), seen from side's home rank */
static inline uint32_t alg_castle_sq_a(uint32_t side, uint32_t cc) { return (side == 0 ? 0u : 56u) + (cc == 1 ? 5u : 3u); }
static inline uint32_t alg_castle_sq_b(uint32_t side, uint32_t cc) { return (side == 0 ? 0u : 56u) + (cc == 1 ? 6u : 2u); }
/* (structures are passed and returned by value: no writes through pointers inside specification code) */
static inline int spec_alg_core(AlgSets S, AlgGhost G, uint32_t m)
{
  uint32_t side = S.side, k = S.k;
  uint64_t own = S.own, enemy = S.enemy, occ = own | enemy;
  uint32_t f = spec_move_from(m), t = spec_move_to(m), pr = spec_move_promo(m), cc = spec_move_ccode(m);
  _Bool plain = cc == 0 && pr == 0 && (m >> 17) == 0;
  if ((m >> 17) != 0) return 0;
  uint64_t checkers = G.checkers;
  _Bool king_move = plain && f == k && ((spec_king(k) >> t) & 1) && !((own >> t) & 1) && !G.fb_t;
  uint64_t push_mask, capture_mask;
  if (checkers) {
    if (checkers & (checkers - 1)) return king_move;
    capture_mask = checkers;
    uint32_t cs = alg_lsb(checkers); uint32_t ck = alg_kind_at(S, cs);
    push_mask = (ck == 3 || ck == 4 || ck == 5) ? (G.seg ^ SPEC_BIT(k) ^ SPEC_BIT(cs)) : 0;
  } else { push_mask = ~occ; capture_mask = enemy; }
  uint64_t pinned = 0;
  for (int r = 0; r < 8; r++) if (G.pin[r] < 64) pinned |= SPEC_BIT(G.pin[r]);
  uint64_t target = capture_mask | push_mask;
  uint64_t own_pawns = own & S.kind[1];
  int cnt = 0;
  cnt += spec_pawn_count(side, own_pawns & ~pinned, ~occ, push_mask, capture_mask, m);
  if (plain && ((own >> f) & 1) && !((pinned >> f) & 1)) {
    uint32_t kd = alg_kind_at(S, f);
    uint64_t att = (kd >= 2 && kd <= 5) ? G.att[kd] : 0;
    if ((att & target) >> t & 1) cnt++;
  }
  if (S.ep != 64) cnt += spec_ep_count(side, occ, k, enemy & (S.kind[4] | S.kind[5]), own_pawns & ~pinned, push_mask, capture_mask, S.ep, m);
  if (king_move) cnt++;
  if (!checkers) {
    for (int r = 0; r < 8; r++) {
      uint32_t q = G.pin[r];
      if (q < 64 && cc == 0 && f == q) {
        uint32_t kd = alg_kind_at(S, q);
        if (kd == 1) cnt += spec_pinned_pawn_count(side, q, r, occ, enemy, S.ep, m);
        else if (kd != 2) {
          _Bool allowed = kd == 5 || (kd == 3 && (r & 1) == 0) || (kd == 4 && (r & 1) == 1);
          if (allowed && plain && (((spec_walk_line(r, q, occ) & target) >> t) & 1)) cnt++;
        }
      }
    }
    uint32_t h = side == 0 ? 0u : 56u;
    if (m == (1u << 15) && ((S.rights >> (2 * side)) & 1) && !G.fb_a && !G.fb_b && !((occ >> (h + 5)) & 1) && !((occ >> (h + 6)) & 1)) cnt++;
    if (m == (2u << 15) && ((S.rights >> (2 * side + 1)) & 1) && !G.fb_a && !G.fb_b && !((occ >> (h + 2)) & 1) && !((occ >> (h + 3)) & 1) && !((occ >> (h + 1)) & 1)) cnt++;
  }
  return cnt;
}
/* the true values of the geometric sub-queries for the sets S and the move m */
static inline AlgGhost spec_alg_true_ghost(AlgSets S, uint32_t m)
{
  AlgGhost G;
  uint32_t side = S.side, k = S.k; uint64_t own = S.own, enemy = S.enemy, occ = own | enemy;
  uint64_t ep_ = enemy & S.kind[1], enn = enemy & S.kind[2], eb = enemy & S.kind[3], er = enemy & S.kind[4], eq = enemy & S.kind[5], ek = enemy & S.kind[6];
  uint32_t f = spec_move_from(m), t = spec_move_to(m), cc = spec_move_ccode(m);
  G.checkers = (spec_pawn_attackers_of(k, side) & ep_) | (spec_knight(k) & enn) | (spec_bishop_walk(k, occ) & (eb | eq)) | (spec_rook_walk(k, occ) & (er | eq));
  for (int r = 0; r < 8; r++) G.pin[r] = spec_pin_sq(r, k, occ, own, eq, er, eb);
  G.att[0] = G.att[1] = 0; G.att[2] = spec_knight(f); G.att[3] = spec_bishop_walk(f, occ); G.att[4] = spec_rook_walk(f, occ); G.att[5] = spec_queen_walk(f, occ);
  G.fb_t = spec_forbidden_bit(side, t, k, occ, ep_, enn, eb, er, eq, ek);
  G.fb_a = spec_forbidden_bit(side, alg_castle_sq_a(side, cc), k, occ, ep_, enn, eb, er, eq, ek);
  G.fb_b = spec_forbidden_bit(side, alg_castle_sq_b(side, cc), k, occ, ep_, enn, eb, er, eq, ek);
  G.seg = G.checkers ? spec_segment(k, alg_lsb(G.checkers)) : 0;
  return G;
}
#ifdef SPEC_POS_H
static inline uint64_t alg_set(const sp_pc *b, uint32_t pc) { uint64_t o = 0; for (uint32_t s = 0; s < 64; s++) if (b[s] == pc) o |= SPEC_BIT(s); return o; }
static inline uint64_t alg_colour(const sp_pc *b, uint32_t c) { uint64_t o = 0; for (uint32_t s = 0; s < 64; s++) if (b[s] != 0 && sp_colour(b[s]) == c) o |= SPEC_BIT(s); return o; }
/* square sets of the mailbox board */
static inline AlgSets spec_alg_sets(const SPos *P)
{
  AlgSets S; const sp_pc *b = P->board;
  S.own = alg_colour(b, P->side); S.enemy = alg_colour(b, 1 - P->side);
  S.kind[0] = 0; for (uint32_t k = 1; k <= 6; k++) S.kind[k] = alg_set(b, k) | alg_set(b, k + 6);
  S.k = sp_king_sq(b, P->side); S.side = P->side; S.rights = P->rights; S.ep = P->ep;
  return S;
}
static inline int spec_alg_count(const SPos *P, uint32_t m)
{ AlgSets S = spec_alg_sets(P); return spec_alg_core(S, spec_alg_true_ghost(S, m), m); }
#endif
#endif
