/* Board geometry, written from the definitions (files/ranks of squares), with no engine table or bit trick.
 * Squares 0..63, a1 = 0, h1 = 7, a8 = 56; bit s of a bitboard = square s.
 * Ray order of the engine's Ray enum: 0 NW, 1 N, 2 NE, 3 E, 4 SE, 5 S, 6 SW, 7 W.
 * All loops have constant bounds (CBMC unrolls them completely without an unwinding limit). */
#ifndef SPEC_GEOM_H
#define SPEC_GEOM_H
#define SPEC_BIT(s) (1ULL << (s))
static inline int spec_df(int ray) { return ray == 0 || ray == 6 || ray == 7 ? -1 : (ray == 1 || ray == 5 ? 0 : 1); }
static inline int spec_dr(int ray) { return ray <= 2 ? 1 : (ray == 3 || ray == 7 ? 0 : -1); }
static inline _Bool spec_on_board(int f, int r) { return f >= 0 && f < 8 && r >= 0 && r < 8; }

/* all squares strictly beyond sq in direction ray, up to the board edge */
static inline uint64_t spec_ray(int ray, uint32_t sq)
{
  uint64_t a = 0; int f = (int)(sq & 7), r = (int)(sq >> 3);
  for (int i = 1; i < 8; i++) { int ff = f + i * spec_df(ray), rr = r + i * spec_dr(ray); if (spec_on_board(ff, rr)) a |= SPEC_BIT(rr * 8 + ff); }
  return a;
}
/* squares reached from sq along one ray, walking until the first blocker (inclusive) */
static inline uint64_t spec_walk_ray(int ray, uint32_t sq, uint64_t occ)
{
  uint64_t a = 0; int f = (int)(sq & 7), r = (int)(sq >> 3); _Bool stop = 0;
  for (int i = 1; i < 8; i++) {
    int ff = f + i * spec_df(ray), rr = r + i * spec_dr(ray);
    if (!stop && spec_on_board(ff, rr)) { uint64_t b = SPEC_BIT(rr * 8 + ff); a |= b; if (occ & b) stop = 1; }
  }
  return a;
}
static inline uint64_t spec_rook_walk(uint32_t sq, uint64_t occ)
{ return spec_walk_ray(1, sq, occ) | spec_walk_ray(3, sq, occ) | spec_walk_ray(5, sq, occ) | spec_walk_ray(7, sq, occ); }
static inline uint64_t spec_bishop_walk(uint32_t sq, uint64_t occ)
{ return spec_walk_ray(0, sq, occ) | spec_walk_ray(2, sq, occ) | spec_walk_ray(4, sq, occ) | spec_walk_ray(6, sq, occ); }
static inline uint64_t spec_queen_walk(uint32_t sq, uint64_t occ) { return spec_rook_walk(sq, occ) | spec_bishop_walk(sq, occ); }
/* the same walks evaluated by case distinction on the origin square (each case has a constant origin): the same functions, in a
 * form in which a walk from a symbolic square and walks from all 64 constant squares share their structure (lemma group geom/walk_cases) */
static inline uint64_t spec_rook_walk_cases(uint32_t sq, uint64_t occ)
{ uint64_t r = 0; for (uint32_t s = 0; s < 64; s++) if (sq == s) r = spec_rook_walk(s, occ); return r; }
static inline uint64_t spec_bishop_walk_cases(uint32_t sq, uint64_t occ)
{ uint64_t r = 0; for (uint32_t s = 0; s < 64; s++) if (sq == s) r = spec_bishop_walk(s, occ); return r; }

/* the square (f + df, r + dr) as a one-bit set, empty when it is off the board */
static inline uint64_t spec_leap(int f, int r, int df, int dr)
{ return spec_on_board(f + df, r + dr) ? SPEC_BIT((r + dr) * 8 + f + df) : 0ULL; }
static inline uint64_t spec_knight(uint32_t sq)
{
  int f = (int)(sq & 7), r = (int)(sq >> 3);
  return spec_leap(f, r, 1, 2) | spec_leap(f, r, 2, 1) | spec_leap(f, r, 2, -1) | spec_leap(f, r, 1, -2) |
         spec_leap(f, r, -1, -2) | spec_leap(f, r, -2, -1) | spec_leap(f, r, -2, 1) | spec_leap(f, r, -1, 2);
}
static inline uint64_t spec_king(uint32_t sq)
{
  int f = (int)(sq & 7), r = (int)(sq >> 3);
  return spec_leap(f, r, 1, 1) | spec_leap(f, r, 1, 0) | spec_leap(f, r, 1, -1) | spec_leap(f, r, 0, -1) |
         spec_leap(f, r, -1, -1) | spec_leap(f, r, -1, 0) | spec_leap(f, r, -1, 1) | spec_leap(f, r, 0, 1);
}

/* relevant-occupancy masks of the magic look-up: the ray squares without the last square of each ray */
static inline uint64_t spec_inner_ray(int ray, uint32_t sq)
{
  uint64_t a = 0; int f = (int)(sq & 7), r = (int)(sq >> 3);
  for (int i = 1; i < 8; i++) {
    int ff = f + i * spec_df(ray), rr = r + i * spec_dr(ray);
    int f2 = ff + spec_df(ray), r2 = rr + spec_dr(ray);
    if (spec_on_board(ff, rr) && spec_on_board(f2, r2)) a |= SPEC_BIT(rr * 8 + ff);
  }
  return a;
}
static inline uint64_t spec_rook_mask(uint32_t sq) { return spec_inner_ray(1, sq) | spec_inner_ray(3, sq) | spec_inner_ray(5, sq) | spec_inner_ray(7, sq); }
/* the engine trims bishop rays by the board rim as a whole (files a/h, ranks 1/8): same set, since a diagonal ray ends on the rim */
static inline uint64_t spec_bishop_mask(uint32_t sq) { return spec_inner_ray(0, sq) | spec_inner_ray(2, sq) | spec_inner_ray(4, sq) | spec_inner_ray(6, sq); }

/* direction (ray index) from a to b if they share a rank, file or diagonal and a != b, else -1 */
static inline int spec_dir(uint32_t a, uint32_t b)
{
  int fa = (int)(a & 7), ra = (int)(a >> 3), fb = (int)(b & 7), rb = (int)(b >> 3);
  int df = fb - fa, dr = rb - ra;
  if (df == 0 && dr == 0) return -1;
  if (df != 0 && dr != 0 && df != dr && df != -dr) return -1;
  int sf = df > 0 ? 1 : (df < 0 ? -1 : 0), sr = dr > 0 ? 1 : (dr < 0 ? -1 : 0);
  for (int ray = 0; ray < 8; ray++) if (spec_df(ray) == sf && spec_dr(ray) == sr) return ray;
  return -1;
}
/* closed segment from a to b (both ends included) when aligned; {a} when a == b; empty otherwise */
static inline uint64_t spec_segment(uint32_t a, uint32_t b)
{
  if (a == b) return SPEC_BIT(a);
  int ray = spec_dir(a, b);
  if (ray < 0) return 0;
  uint64_t s = SPEC_BIT(a); int f = (int)(a & 7), r = (int)(a >> 3); _Bool done = 0;
  for (int i = 1; i < 8; i++) {
    int ff = f + i * spec_df(ray), rr = r + i * spec_dr(ray);
    if (!done && spec_on_board(ff, rr)) { s |= SPEC_BIT(rr * 8 + ff); if ((uint32_t)(rr * 8 + ff) == b) done = 1; }
  }
  return s;
}
/* the whole rank, file or diagonal through a and b (a != b, aligned), else empty */
static inline uint64_t spec_full_line(uint32_t a, uint32_t b)
{
  int ray = spec_dir(a, b);
  if (ray < 0) return 0;
  return spec_ray(ray, a) | spec_ray((ray + 4) & 7, a) | SPEC_BIT(a);
}

/* does a rook-like (diag == 0) or bishop-like (diag == 1) slider on s see square t: aligned on a line of that kind and every
 * square strictly between them empty in occ (the end squares themselves may be occupied) */
static inline _Bool spec_sees(int diag, uint32_t s, uint32_t t, uint64_t occ)
{
  int ray = spec_dir(s, t);
  if (ray < 0 || ((ray & 1) == 0) != (diag != 0)) return 0;
  int f = (int)(s & 7), r = (int)(s >> 3); _Bool open_ = 1, reached = 0;
  for (int i = 1; i < 8; i++) {
    int ff = f + i * spec_df(ray), rr = r + i * spec_dr(ray);
    if (!reached && spec_on_board(ff, rr)) {
      if ((uint32_t)(rr * 8 + ff) == t) reached = 1;
      else if ((occ >> (rr * 8 + ff)) & 1) open_ = 0;
    }
  }
  return reached && open_;
}
/* bit deposit / extract over a mask with at most 12 bits (the relevant-occupancy masks have 5..12):
 * bit i of the index (from the least significant end) stands for the i-th lowest square of the mask */
static inline uint64_t spec_pdep(uint32_t idx, uint64_t mask)
{ uint64_t r = 0; for (int i = 0; i < 12; i++) { if (mask) { uint64_t low = mask & (~mask + 1); if ((idx >> i) & 1) r |= low; mask &= mask - 1; } } return r; }
static inline uint32_t spec_pext(uint64_t x, uint64_t mask)
{ uint32_t r = 0; for (int i = 0; i < 12; i++) { if (mask) { uint64_t low = mask & (~mask + 1); if (x & low) r |= 1u << i; mask &= mask - 1; } } return r; }

/* bit t of "bb moved by (df, dr)": the source square exists and is set */
static inline _Bool spec_shift_bit(uint64_t bb, uint32_t t, int df, int dr)
{ int f = (int)(t & 7) - df, r = (int)(t >> 3) - dr; return spec_on_board(f, r) && ((bb >> (r * 8 + f)) & 1); }
#endif
