/* Representation invariant of engine::Position and its abstraction to the mailbox position of spec/pos.h.
 * Included AFTER the extracted text (it needs struct Position); prototypes are in poswf_decl.h. */
#ifndef SPEC_POSWF_H
#define SPEC_POSWF_H
void sp_of(const struct Position *p, SPos *o)
{
  for (int s = 0; s < 64; s++) o->board[s] = (sp_pc)p->_board[s];
  o->side = p->_current_side; o->rights = p->_castling_rights; o->ep = p->_enpassant_square; o->half = p->_half_move_counter; o->ply = p->_ply_counter;
}
_Bool sp_is(const struct Position *p, const SPos *o)
{
  for (int s = 0; s < 64; s++) if (o->board[s] != p->_board[s]) return 0;
  return o->side == p->_current_side && o->rights == p->_castling_rights && o->ep == p->_enpassant_square && o->half == p->_half_move_counter && o->ply == p->_ply_counter;
}
/* the three placements agree on square s */
_Bool wf_board_at(const struct Position *p, uint32_t s)
{
  uint32_t pc = p->_board[s];
  if (pc > 12) return 0;
  for (uint32_t c = 0; c < 2; c++) if ((((p->_by_color_bb[c] >> s) & 1) != 0) != (pc != 0 && sp_colour(pc) == c)) return 0;
  for (uint32_t k = 1; k < 7; k++) if ((((p->_by_piece_kind_bb[k] >> s) & 1) != 0) != (sp_kind(pc) == k)) return 0;
  return 1;
}
_Bool wf_board(const struct Position *p)
{ for (uint32_t s = 0; s < 64; s++) if (!wf_board_at(p, s)) return 0; return 1; }
uint64_t wf_bb(const struct Position *p, uint32_t pc) { return p->_by_color_bb[sp_colour(pc)] & p->_by_piece_kind_bb[sp_kind(pc)]; }
/* piece list of code pc and its bitboard are in bijection: count within capacity, every entry is a square of the bitboard,
 * entries pairwise distinct, and every square of the bitboard occurs in the list - stated as "the set of listed squares equals
 * the bitboard, and no entry repeats an earlier one".  (Stated without counting: "count == popcount" would force the SAT
 * solver through a pigeonhole argument whenever a list search must be shown to succeed.) */
_Bool wf_row(const struct Position *p, uint32_t pc)
{
  /* written as one conjunction (no early returns): keeps the guards of the symbolic execution flat */
  int n = p->_piece_count[pc];
  _Bool ok = n >= 0 && n <= 10;
  uint64_t bb = wf_bb(p, pc);      /* (with wf_board: bit s of bb  <=>  _board[s] == pc) */
  uint64_t listed = 0;             /* squares named by the first n entries */
  for (int i = 0; i < 10; i++) {
    uint32_t s = p->_piece_position[pc][i];
    _Bool live = i < n;
    ok = ok && (!live || (s < 64 && ((bb >> (s & 63)) & 1) && !((listed >> (s & 63)) & 1)));   /* on the bitboard, not listed before */
    listed |= live && s < 64 ? (1ULL << (s & 63)) : 0ULL;
  }
  return ok && listed == bb;       /* and every square of the bitboard is listed */
}
/* the same, point-wise: slot i, slot pair (i, j) and square sq (used in postconditions with ghost arguments) */
_Bool wf_row_at(const struct Position *p, uint32_t pc, uint32_t sq, int i, int j)
{
  int n = p->_piece_count[pc];
  _Bool ok = n >= 0 && n <= 10;
  uint64_t bb = wf_bb(p, pc);
  if (i >= 0 && i < 10 && i < n) { uint32_t s = p->_piece_position[pc][i]; ok = ok && s < 64 && ((bb >> (s & 63)) & 1); }
  if (i >= 0 && j > i && j < 10 && j < n) ok = ok && p->_piece_position[pc][i] != p->_piece_position[pc][j];
  if (sq < 64 && ((bb >> sq) & 1)) {
    _Bool found = 0;
    for (int k = 0; k < 10; k++) found = found || (k < n && p->_piece_position[pc][k] == sq);
    ok = ok && found;
  }
  return ok;
}
_Bool wf_lists(const struct Position *p)
{ for (uint32_t pc = 1; pc <= 12; pc++) if (!wf_row(p, pc)) return 0; return 1; }
/* side, rights and e.p. square are meaningful: rights only with king and rook at home; the e.p. square lies behind an enemy pawn that
 * has just made a double step (its origin and the e.p. square are empty); one king each; no pawn on the first or last rank */
_Bool wf_state(const struct Position *p)
{
  if (p->_current_side > 1 || p->_castling_rights > 15) return 0;
  uint32_t r = p->_castling_rights;
  if ((r & 3) && p->_board[4] != 6) return 0;
  if ((r & 1) && p->_board[7] != 4) return 0;
  if ((r & 2) && p->_board[0] != 4) return 0;
  if ((r & 12) && p->_board[60] != 12) return 0;
  if ((r & 4) && p->_board[63] != 10) return 0;
  if ((r & 8) && p->_board[56] != 10) return 0;
  uint32_t e = p->_enpassant_square;
  if (e != 64) {
    if (e > 64) return 0;
    if (p->_current_side == 0) { if ((e >> 3) != 5 || p->_board[e] != 0 || p->_board[e - 8] != 7 || p->_board[e + 8] != 0) return 0; }
    else { if ((e >> 3) != 2 || p->_board[e] != 0 || p->_board[e + 8] != 1 || p->_board[e - 8] != 0) return 0; }
  }
  if (p->_piece_count[6] != 1 || p->_piece_count[12] != 1) return 0;
  for (uint32_t s = 0; s < 8; s++) if (sp_kind(p->_board[s]) == 1 || sp_kind(p->_board[56 + s]) == 1) return 0;
  return 1;
}
_Bool wf_pos(const struct Position *p) { return wf_board(p) && wf_lists(p) && wf_state(p); }
#endif
