/* Move / MoveInfo bit layout taken from the property statement (C16) and the engine's documented layout:
 * move:     from 0-5, to 6-11, promotion 12-14, castling code 15-16 (1 = king side, 2 = queen side)
 * moveinfo: captured kind 0-2, previous rights 3-6, previous e.p. square 7-12, "had e.p." 13, "was e.p." 14, clock 15-22 */
#ifndef SPEC_MOVEENC_H
#define SPEC_MOVEENC_H
#define SPEC_NO_SQUARE 64u
#define SPEC_KING_CASTLING 5u   /* W_OO | B_OO  */
#define SPEC_QUEEN_CASTLING 10u /* W_OOO | B_OOO */
static inline uint32_t spec_move_pack(uint32_t from, uint32_t to, uint32_t promo, uint32_t ccode)
{ return from | (to << 6) | (promo << 12) | (ccode << 15); }
static inline uint32_t spec_move_from(uint32_t m) { return m & 63u; }
static inline uint32_t spec_move_to(uint32_t m) { return (m >> 6) & 63u; }
static inline uint32_t spec_move_promo(uint32_t m) { return (m >> 12) & 7u; }
static inline uint32_t spec_move_ccode(uint32_t m) { return (m >> 15) & 3u; }
static inline uint32_t spec_castling_of_code(uint32_t c) { return c == 0 ? 0u : c == 1 ? SPEC_KING_CASTLING : SPEC_QUEEN_CASTLING; }
static inline uint32_t spec_mi_pack(uint32_t cap, uint32_t rights, uint32_t ep, uint32_t was_ep, uint32_t clock)
{ return cap | (rights << 3) | (ep == SPEC_NO_SQUARE ? 0u : ((ep << 7) | (1u << 13))) | ((was_ep ? 1u : 0u) << 14) | (clock << 15); }
#endif
