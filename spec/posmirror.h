/* Colour mirror of an engine::Position (after the extracted text): ranks flipped, colours, castling rights, e.p. square and
 * side to move swapped; piece lists mirrored slot by slot (list order is not observable through the functions under contract). */
#ifndef SPEC_POSMIRROR_H
#define SPEC_POSMIRROR_H
static inline uint64_t mir_bb(uint64_t b)
{ uint64_t r = 0; for (int k = 0; k < 8; k++) r |= ((b >> (8 * k)) & 0xffULL) << (8 * (7 - k)); return r; }
static inline uint32_t mir_pc(uint32_t pc) { return pc == 0 ? 0u : (pc <= 6 ? pc + 6 : pc - 6); }
void mirror_pos(const struct Position *p, struct Position *m)
{
  *m = *p;
  m->_current_side = 1 - p->_current_side;
  for (uint32_t s = 0; s < 64; s++) m->_board[s] = mir_pc(p->_board[s ^ 56]);
  for (uint32_t pc = 1; pc <= 12; pc++) {
    m->_piece_count[mir_pc(pc)] = p->_piece_count[pc];
    for (int i = 0; i < 10; i++) m->_piece_position[mir_pc(pc)][i] = p->_piece_position[pc][i] ^ 56;
  }
  for (uint32_t k = 0; k < 7; k++) m->_by_piece_kind_bb[k] = mir_bb(p->_by_piece_kind_bb[k]);
  m->_by_color_bb[0] = mir_bb(p->_by_color_bb[1]); m->_by_color_bb[1] = mir_bb(p->_by_color_bb[0]);
  m->_castling_rights = ((p->_castling_rights & 3) << 2) | ((p->_castling_rights >> 2) & 3);
  m->_enpassant_square = p->_enpassant_square == 64 ? 64 : (p->_enpassant_square ^ 56);
}
#endif
