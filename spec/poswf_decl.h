/* prototypes of spec/poswf.h (contracts mention them before struct Position is defined) */
#ifndef SPEC_POSWF_DECL_H
#define SPEC_POSWF_DECL_H
#include "pos.h"
struct Position;
void sp_of(const struct Position *p, SPos *o);
_Bool sp_is(const struct Position *p, const SPos *o);
_Bool wf_board_at(const struct Position *p, uint32_t s);
_Bool wf_board(const struct Position *p);
uint64_t wf_bb(const struct Position *p, uint32_t pc);
_Bool wf_row(const struct Position *p, uint32_t pc);
_Bool wf_row_at(const struct Position *p, uint32_t pc, uint32_t sq, int i, int j);
_Bool wf_lists(const struct Position *p);
_Bool wf_state(const struct Position *p);
_Bool wf_pos(const struct Position *p);
struct HashKey;
extern uint32_t G_HPC, G_HSQ, G_HR, G_HF;   /* ghost cell / rights value / e.p. file of the indicator tables (C04) */
_Bool hash_ok_for(const struct HashKey *k, const struct Position *p);
_Bool hash_ok(const struct Position *p);
void hash_indicator_tables(void);
#endif
