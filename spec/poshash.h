/* included after the extracted text, after poswf.h; needs the Zobrist tables (force_globals) */
#ifndef SPEC_POSHASH_H
#define SPEC_POSHASH_H
/* C04: the five key components equal their from-scratch definition.  The key is GF(2)-linear in the table entries, so it
 * suffices to state this for INDICATOR tables (the harness sets PIECE_HASH[pc][sq] = [pc == G_HPC && sq == G_HSQ],
 * CASTLING_HASH[r] = [r == G_HR], ENPASSANT_HASH[f] = [f == G_HF], SIDE_HASH = 1): then the from-scratch XOR over the board
 * collapses to "does the ghost cell occur". */
_Bool hash_ok_for(const struct HashKey *k, const struct Position *p)
{
  uint64_t cell = p->_board[G_HSQ] == G_HPC ? 1 : 0;
  if (k->_pawn_key != (sp_kind(G_HPC) == 1 ? cell : 0)) return 0;
  if (k->_piece_key != (sp_kind(G_HPC) != 1 ? cell : 0)) return 0;
  if (k->_castling_key != (p->_castling_rights == G_HR ? 1 : 0)) return 0;
  if (k->_color_key != (p->_current_side == 1 ? 1 : 0)) return 0;
  if (k->_enpassant_key != ((p->_enpassant_square != 64 && (p->_enpassant_square & 7) == G_HF) ? 1 : 0)) return 0;
  return 1;
}
_Bool hash_ok(const struct Position *p) { return hash_ok_for(&p->_zobrist_hash, p); }
void hash_indicator_tables(void)
{
  for (uint32_t pc = 0; pc < 13; pc++) for (uint32_t s = 0; s < 64; s++) PIECE_HASH[pc][s] = (pc == G_HPC && s == G_HSQ) ? 1 : 0;
  for (uint32_t r = 0; r < 16; r++) CASTLING_HASH[r] = (r == G_HR) ? 1 : 0;
  for (uint32_t f = 0; f < 8; f++) ENPASSANT_HASH[f] = (f == G_HF) ? 1 : 0;
  SIDE_HASH = 1;
}
#endif
