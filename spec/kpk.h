/* King + pawn versus king: one-step rules on coordinates (White owns the pawn), no engine code or table.
 * Index layout (engine/bitbase.cpp, documented there): bits 0-5 white king, 6-11 black king, 12 side to move
 * (0 white, 1 black), 13-14 pawn file (a-d), 15-17 pawn rank - 2 (ranks 2..7).
 * Labels: 0 invalid (illegal position), 1 unknown, 2 win (for White), 3 draw. */
#ifndef SPEC_KPK_H
#define SPEC_KPK_H
#define KPK_MAX_INDEX (2 * 24 * 64 * 64)
#define KPK_INVALID 0u
#define KPK_UNKNOWN 1u
#define KPK_WIN 2u
#define KPK_DRAW 3u
static inline int kpk_abs(int x) { return x < 0 ? -x : x; }
static inline int kpk_dist(uint32_t a, uint32_t b)
{ int df = kpk_abs((int)(a & 7) - (int)(b & 7)), dr = kpk_abs((int)(a >> 3) - (int)(b >> 3)); return df > dr ? df : dr; }
static inline uint32_t kpk_index(uint32_t side, uint32_t wk, uint32_t wp, uint32_t bk)
{ return wk | (bk << 6) | (side << 12) | ((wp & 7) << 13) | (((wp >> 3) - 1) << 15); }
static inline uint32_t kpk_side(uint32_t idx) { return (idx >> 12) & 1; }
static inline uint32_t kpk_wk(uint32_t idx) { return idx & 63; }
static inline uint32_t kpk_bk(uint32_t idx) { return (idx >> 6) & 63; }
static inline uint32_t kpk_wp(uint32_t idx) { return (((idx >> 15) & 7) + 1) * 8 + ((idx >> 13) & 3); }
/* the white pawn on wp attacks sq */
static inline _Bool kpk_pawn_attacks(uint32_t wp, uint32_t sq)
{ return (sq >> 3) == (wp >> 3) + 1 && kpk_abs((int)(sq & 7) - (int)(wp & 7)) == 1; }
/* legal position: kings apart, nobody on the pawn, pawn on ranks 2..7, side not to move not in check */
static inline _Bool kpk_legal(uint32_t side, uint32_t wk, uint32_t wp, uint32_t bk)
{
  if (wk > 63 || bk > 63 || wp > 63 || (wp >> 3) < 1 || (wp >> 3) > 6) return 0;
  if (kpk_dist(wk, bk) <= 1 || wk == wp || bk == wp) return 0;
  if (side == 0 && kpk_pawn_attacks(wp, bk)) return 0;
  return 1;
}
static inline _Bool kpk_legal_idx(uint32_t idx) { return idx < KPK_MAX_INDEX && kpk_legal(kpk_side(idx), kpk_wk(idx), kpk_wp(idx), kpk_bk(idx)); }
/* k-th king step (0..7) from sq, or 64 if it leaves the board */
static inline uint32_t kpk_step(uint32_t sq, int k)
{
  const int df[8] = {-1, 0, 1, -1, 1, -1, 0, 1}, dr[8] = {-1, -1, -1, 0, 0, 1, 1, 1};
  int f = (int)(sq & 7) + df[k], r = (int)(sq >> 3) + dr[k];
  return (f < 0 || f > 7 || r < 0 || r > 7) ? 64u : (uint32_t)(r * 8 + f);
}
/* Black king may step to t: on the board, not next to the white king, not attacked by the pawn
 * (stepping onto the pawn = capturing it, allowed exactly when it is not defended, i.e. not next to the white king) */
static inline _Bool kpk_black_step_ok(uint32_t wk, uint32_t wp, uint32_t t)
{ return t < 64 && kpk_dist(t, wk) > 1 && !kpk_pawn_attacks(wp, t); }
/* White king may step to t: on the board, not next to the black king, not onto its own pawn */
static inline _Bool kpk_white_step_ok(uint32_t bk, uint32_t wp, uint32_t t)
{ return t < 64 && kpk_dist(t, bk) > 1 && t != wp; }

/* classification before any look-ahead */
static inline uint32_t spec_kpk_initial(uint32_t idx)
{
  uint32_t side = kpk_side(idx), wk = kpk_wk(idx), wp = kpk_wp(idx), bk = kpk_bk(idx);
  if (!kpk_legal(side, wk, wp, bk)) return KPK_INVALID;
  if (side == 1) {
    _Bool any = 0, takes = 0;
    for (int k = 0; k < 8; k++) { uint32_t t = kpk_step(bk, k); if (kpk_black_step_ok(wk, wp, t)) { any = 1; if (t == wp) takes = 1; } }
    if (!any) return KPK_DRAW;    /* stalemate (a lone pawn cannot give mate) */
    if (takes) return KPK_DRAW;   /* the pawn falls */
    return KPK_UNKNOWN;
  }
  if ((wp >> 3) == 6) {
    uint32_t q = wp + 8;
    /* promotion is possible and the new piece cannot be taken at once: won (KQK / KRK) */
    if (wk != q && bk != q && !(kpk_dist(bk, q) == 1 && kpk_dist(wk, q) > 1)) return KPK_WIN;
  }
  return KPK_UNKNOWN;
}

/* one retrograde step for an undecided legal position, given labels of its successors:
 * the mover gets its better result if some legal move reaches it; unknown if none does but some legal move is
 * undecided; otherwise the worse result.  White's moves: king steps, single push onto an empty square, double push
 * from rank 2 with BOTH squares empty (promotion is settled by the initial classification). */
static inline uint32_t spec_kpk_update(const uint32_t *results, uint32_t idx)
{
  uint32_t side = kpk_side(idx), wk = kpk_wk(idx), wp = kpk_wp(idx), bk = kpk_bk(idx);
  uint32_t better = side == 0 ? KPK_WIN : KPK_DRAW, worse = side == 0 ? KPK_DRAW : KPK_WIN;
  _Bool unknown = 0, found = 0;
  for (int k = 0; k < 8; k++) {
    uint32_t t = kpk_step(side == 0 ? wk : bk, k);
    _Bool ok = side == 0 ? kpk_white_step_ok(bk, wp, t) : (kpk_black_step_ok(wk, wp, t) && t != wp);
    if (ok) {
      uint32_t r = results[kpk_index(1 - side, side == 0 ? t : wk, wp, side == 0 ? bk : t)];
      if (r == better) found = 1;
      if (r == KPK_UNKNOWN) unknown = 1;
    }
  }
  if (side == 0 && (wp >> 3) != 6) {
    uint32_t p1 = wp + 8;
    if (p1 != wk && p1 != bk) {
      uint32_t r = results[kpk_index(1, wk, p1, bk)];
      if (r == better) found = 1;
      if (r == KPK_UNKNOWN) unknown = 1;
      if ((wp >> 3) == 1) {
        uint32_t p2 = wp + 16;
        if (p2 != wk && p2 != bk) {
          uint32_t r2 = results[kpk_index(1, wk, p2, bk)];
          if (r2 == better) found = 1;
          if (r2 == KPK_UNKNOWN) unknown = 1;
        }
      }
    }
  }
  return found ? better : (unknown ? KPK_UNKNOWN : worse);
}
/* the engine leaves illegal successors to their INVALID label: the table it reads must carry that label exactly on
 * the illegal successors of idx (established by the initial classification, kept by every update) */
static inline _Bool spec_kpk_succ_labels_ok(const uint32_t *results, uint32_t idx)
{
  uint32_t side = kpk_side(idx), wk = kpk_wk(idx), wp = kpk_wp(idx), bk = kpk_bk(idx);
  for (int k = 0; k < 8; k++) {
    uint32_t t = kpk_step(side == 0 ? wk : bk, k);
    if (t < 64) {
      uint32_t s = kpk_index(1 - side, side == 0 ? t : wk, wp, side == 0 ? bk : t);
      if ((results[s] == KPK_INVALID) != !kpk_legal_idx(s)) return 0;
      if (results[s] > 3) return 0;
    }
  }
  if (side == 0 && (wp >> 3) != 6) {
    uint32_t s = kpk_index(1, wk, wp + 8, bk);
    if ((results[s] == KPK_INVALID) != !kpk_legal_idx(s) || results[s] > 3) return 0;
    if ((wp >> 3) == 1) {
      uint32_t s2 = kpk_index(1, wk, wp + 16, bk);
      if ((results[s2] == KPK_INVALID) != !kpk_legal_idx(s2) || results[s2] > 3) return 0;
    }
  }
  return 1;
}
#endif
